"""Fail-closed extractors: re-read facts from /repo's current source into coq/Generated/*.v.

Each extractor either recognises exactly the construct it expects or raises FactError; the
failure is recorded and the Generated file is written with an unprovable placeholder so the
dependent obligation fails by name (never silently)."""
from __future__ import annotations

import ast
import csv
import os
import re

from . import common

GEN = os.path.join(common.COQ, 'Generated')


class FactError(Exception):
    pass


def _src(rel: str) -> str:
    with open(os.path.join(common.SRC, 'valiant', rel)) as fh:
        return fh.read()


def _write_if_changed(fp: str, text: str) -> None:
    old = None
    if os.path.exists(fp):
        with open(fp) as fh:
            old = fh.read()
    if old != text:
        with open(fp, 'w') as fh:
            fh.write(text)


def coq_str(s: str) -> str:
    return '"' + s.replace('"', '""') + '"'


EXTRACTORS = {}


def extractor(name):
    def deco(f):
        EXTRACTORS[name] = f
        return f
    return deco


def generate() -> dict:
    os.makedirs(GEN, exist_ok=True)
    status = {}
    for name, f in EXTRACTORS.items():
        fp = os.path.join(GEN, name + '.v')
        try:
            text = f()
            status[name] = 'ok'
        except Exception as ex:  # fail closed
            status[name] = f'FAILED: {type(ex).__name__}: {ex}'
            text = ('(* fact not extractable: %s *)\nFrom Coq Require Import String List.\n'
                    'Definition fact_extracted : bool := false.\n') % str(ex).replace('*)', '* )')
        _write_if_changed(fp, '(* GENERATED from /repo by harness/gen_facts.py - do not edit *)\n' + text)
    return status


@extractor('DefaultTable')
def default_table() -> str:
    fp = os.path.join(common.SRC, 'valiant', 'data', 'default_codon_table.csv')
    rows = []
    with open(fp, newline='') as fh:
        for r in csv.reader(fh):
            if len(r) != 4:
                raise FactError(f'default table row with {len(r)} fields')
            codon, aa, freq, rank = r
            if not re.fullmatch(r'[ACGT]{3}', codon) or not re.fullmatch(r'RANK(\d+|U|T|UT)', rank):
                raise FactError(f'unrecognised default table row {r}')
            k = 1 if rank[4:] in ('U', 'T', 'UT') else int(rank[4:])
            rows.append(f'  mkRow (d {coq_str(codon)}) {coq_str(aa)} {k}')
    return ('From VV Require Import Model.Base Model.Pattern Model.CodonTable.\nLocal Open Scope string_scope.\n'
            'Definition fact_extracted : bool := true.\n'
            'Definition default_rows : list crow := [\n' + ';\n'.join(rows) + '].\n')


def _names(node):
    return node.id if isinstance(node, ast.Name) else None


@extractor('MetaFields')
def meta_fields() -> str:
    tree = ast.parse(_src('meta_table.py'))
    fields = None
    writer = noop = None
    for node in tree.body:
        if isinstance(node, ast.Assign) and any(isinstance(t, ast.Name) and t.id == 'META_CSV_FIELDS' for t in node.targets):
            if not isinstance(node.value, ast.List) or not all(isinstance(e, ast.Constant) and isinstance(e.value, str) for e in node.value.elts):
                raise FactError('META_CSV_FIELDS is not a list of string literals')
            fields = [e.value for e in node.value.elts]
        if isinstance(node, ast.FunctionDef) and node.name == 'write_meta_record':
            writer = node
        if isinstance(node, ast.FunctionDef) and node.name == 'write_no_op_meta_record':
            noop = node
    if fields is None or writer is None or noop is None:
        raise FactError('META_CSV_FIELDS / write_meta_record / write_no_op_meta_record not found')
    params = [a.arg for a in writer.args.args][1:]
    order = []
    for st in writer.body:
        if not isinstance(st, ast.Expr) or not isinstance(st.value, ast.Call):
            raise FactError('unexpected statement in write_meta_record')
        call = st.value
        fn = call.func
        if isinstance(fn, ast.Name) and fn.id == '_write_field':
            if len(call.args) != 2 or _names(call.args[0]) != 'fh':
                raise FactError('unexpected _write_field call')
            x = call.args[1]
            if isinstance(x, ast.Call) and isinstance(x.func, ast.Name) and x.func.id == 'str' and len(x.args) == 1:
                x = x.args[0]
            if _names(x) is None:
                raise FactError('unexpected _write_field argument')
            order.append(x.id)
        elif isinstance(fn, ast.Attribute) and fn.attr == 'write' and _names(fn.value) == 'fh':
            x = call.args[0]
            if isinstance(x, ast.Constant) and x.value == '\n':
                order.append('<newline>')
            elif _names(x):
                order.append(x.id)
            else:
                raise FactError('unexpected fh.write argument')
        else:
            raise FactError('unexpected call in write_meta_record')
    # write_no_op_meta_record: a single call of write_meta_record
    calls = [st.value for st in noop.body if isinstance(st, ast.Expr) and isinstance(st.value, ast.Call)]
    if len(calls) != 1 or _names(calls[0].func) != 'write_meta_record' or calls[0].keywords:
        raise FactError('write_no_op_meta_record is not a single positional call of write_meta_record')
    noop_args = []
    for a in calls[0].args[1:]:
        if isinstance(a, ast.Name):
            noop_args.append(a.id)
        elif isinstance(a, ast.Constant):
            noop_args.append(f'<{a.value!r}>')
        elif isinstance(a, ast.UnaryOp) and isinstance(a.op, ast.USub) and isinstance(a.operand, ast.Constant):
            noop_args.append(f'<-{a.operand.value!r}>')
        else:
            raise FactError('unexpected argument in write_no_op_meta_record')
    # README: metadata table columns |Index|Field|...
    readme = open(os.path.join(common.REPO, 'README.md')).read()
    sec = readme.split('### Oligonucleotide metadata file', 1)[1].split('\n### ', 1)[0]
    cols = re.findall(r'^\|(\d+)\|`([^`]+)`\|', sec, flags=re.M)
    if [int(i) for i, _ in cols] != list(range(1, len(cols) + 1)) or not cols:
        raise FactError('README metadata column table not recognised')
    # VCF INFO tags: declared in the header vs used in the records
    vw = _src('vcf_writer.py')
    declared = re.findall(r"\('(SGE_\w+)', 'String', 1\)", vw)
    used = sorted(set(re.findall(r"vcf_info\['(SGE_\w+)'\]", vw)) | set(re.findall(r"'(SGE_\w+)':", vw)))
    readme_tags = re.findall(r'^\|`(SGE_\w+)`\|', readme, flags=re.M)
    sl = lambda l: '[' + '; '.join(coq_str(x) for x in l) + ']'
    return ('From Coq Require Import String List.\nImport ListNotations.\nLocal Open Scope string_scope.\n'
            'Definition fact_extracted : bool := true.\n'
            f'Definition meta_csv_fields : list string := {sl(fields)}.\n'
            f'Definition readme_fields : list string := {sl([c for _, c in cols])}.\n'
            f'Definition writer_params : list string := {sl(params)}.\n'
            f'Definition write_order : list string := {sl(order)}.\n'
            f'Definition noop_args : list string := {sl(noop_args)}.\n'
            f'Definition vcf_declared_tags : list string := {sl(declared)}.\n'
            f'Definition vcf_used_tags : list string := {sl(used)}.\n'
            f'Definition readme_vcf_tags : list string := {sl(readme_tags)}.\n')


def _sql_of(rel: str, name: str) -> str:
    tree = ast.parse(_src(rel))
    for node in tree.body:
        if isinstance(node, ast.Assign) and any(isinstance(t, ast.Name) and t.id == name for t in node.targets):
            if isinstance(node.value, ast.Constant) and isinstance(node.value.value, str):
                return node.value.value
    raise FactError(f'{rel}: string constant {name} not found')


def _order_by(sql: str) -> list[str]:
    m = re.search(r'\border\s+by\s+([\w\s,.]+?)\s*$', sql.strip(), flags=re.I)
    if not m:
        return []
    cols = [c.strip() for c in m.group(1).split(',')]
    if not all(re.fullmatch(r'[\w.]+', c) for c in cols):
        raise FactError(f'unrecognised ORDER BY list: {m.group(1)!r} (asc/desc/expressions are not modelled)')
    return cols


@extractor('OrderKey')
def order_key() -> str:
    """C12: the places where an output order is fixed, re-read from the source."""
    sql = _sql_of('meta_row.py', 'sql_select_meta')
    m = re.fullmatch(r'\s*select\s+(.*?)\s+from\s+v_meta\s+order\s+by\s+.*', sql, flags=re.S | re.I)
    if not m:
        raise FactError('sql_select_meta is not `select <columns> from v_meta order by ...`')
    cols = [c.strip() for c in m.group(1).split(',')]
    if not all(re.fullmatch(r'\w+', c) for c in cols):
        raise FactError('sql_select_meta selects expressions, not plain columns')
    key = _order_by(sql)
    ppes = _order_by(_sql_of('queries.py', 'sql_select_ppes_with_offset'))
    bgs = _order_by(_sql_of('queries.py', 'sql_select_background_variants'))
    bgo = _order_by(_sql_of('queries.py', 'sql_select_overlapping_background_variants'))
    ddl = open(os.path.join(common.SRC, 'valiant', 'data', 'ddl.sql')).read()
    gc = re.search(r"group_concat\(z\.sgrna_id,\s*';'\)\s*from\s*\((.*?)\)\s*z", ddl, flags=re.S)
    if not gc:
        raise FactError('group_concat of sgRNA ids in v_meta not recognised')
    gc_order = _order_by(re.sub(r'--[^\n]*', '', gc.group(1)))
    gc_group = bool(re.search(r'group\s+by\s+t\.sgrna_id', gc.group(1), flags=re.I))

    def has_call(rel: str, func: str, pred) -> bool:
        tree = ast.parse(_src(rel))
        for node in ast.walk(tree):
            if isinstance(node, ast.FunctionDef) and node.name == func:
                return any(pred(n) for n in ast.walk(node))
        raise FactError(f'{rel}: function {func} not found')

    def is_sorted_set_parse_list(n):   # sorted(set(parse_list(s)))
        return (isinstance(n, ast.Call) and _names(n.func) == 'sorted' and len(n.args) == 1 and isinstance(n.args[0], ast.Call)
                and _names(n.args[0].func) == 'set' and len(n.args[0].args) == 1 and isinstance(n.args[0].args[0], ast.Call)
                and _names(n.args[0].args[0].func) == 'parse_list')

    def dotted(n):
        return n.id if isinstance(n, ast.Name) else (f'{dotted(n.value)}.{n.attr}' if isinstance(n, ast.Attribute) else None)

    def is_dedup_parsed(n):            # return list(dict.fromkeys(map(MutatorConfig.parse, ...))): duplicates removed after parsing too
        return (isinstance(n, ast.Return) and isinstance(n.value, ast.Call) and dotted(n.value.func) == 'list' and len(n.value.args) == 1
                and isinstance(n.value.args[0], ast.Call) and dotted(n.value.args[0].func) == 'dict.fromkeys' and len(n.value.args[0].args) == 1
                and isinstance(n.value.args[0].args[0], ast.Call) and dotted(n.value.args[0].args[0].func) == 'map'
                and len(n.value.args[0].args[0].args) == 2 and dotted(n.value.args[0].args[0].args[0]) == 'MutatorConfig.parse')

    def is_reselect_loop(n):           # while ...: ... select_background_variant_stats(conn, ctx) ... (the context widened until closed)
        return isinstance(n, ast.While) and any(isinstance(m, ast.Call) and _names(m.func) == 'select_background_variant_stats' for m in ast.walk(n))

    def is_sorted_sgrna(n):            # sorted(self.sgrna_ids)
        return (isinstance(n, ast.Call) and _names(n.func) == 'sorted' and len(n.args) == 1 and not n.keywords
                and isinstance(n.args[0], ast.Attribute) and n.args[0].attr == 'sgrna_ids')

    def is_names_sort(n):              # names.sort()
        return (isinstance(n, ast.Call) and isinstance(n.func, ast.Attribute) and n.func.attr == 'sort'
                and _names(n.func.value) == 'names' and not n.args and not n.keywords)

    def is_parse_list_strip(n):        # raw.strip() for raw in s.split(delimiter)
        return isinstance(n, ast.Call) and isinstance(n.func, ast.Attribute) and n.func.attr == 'strip'

    def is_upper(n):
        return isinstance(n, ast.Call) and isinstance(n.func, ast.Attribute) and n.func.attr == 'upper'

    b = lambda x: 'true' if x else 'false'
    sl = lambda l: '[' + '; '.join(coq_str(x) for x in l) + ']'
    upper_vcf = sum(1 for n in ast.walk(ast.parse(_src('custom_variant.py'))) if is_upper(n))
    return ('From Coq Require Import String List.\nImport ListNotations.\nLocal Open Scope string_scope.\n'
            'Definition fact_extracted : bool := true.\n'
            f'Definition meta_select_columns : list string := {sl(cols)}.\n'
            f'Definition meta_order_key : list string := {sl(key)}.\n'
            f'Definition ppes_with_offset_order : list string := {sl(ppes)}.\n'
            f'Definition background_variants_order : list string := {sl(bgs)}.\n'
            f'Definition overlapping_background_order : list string := {sl(bgo)}.\n'
            f'Definition sgrna_concat_order : list string := {sl(gc_order)}.\n'
            f'Definition sgrna_concat_grouped : bool := {b(gc_group)}.\n'
            f"Definition parse_mutators_sorted_set : bool := {b(has_call('loaders/base_targeton_config.py', 'parse_mutators', is_sorted_set_parse_list))}.\n"
            f"Definition parse_mutators_dedups_parsed : bool := {b(has_call('loaders/base_targeton_config.py', 'parse_mutators', is_dedup_parsed))}.\n"
            f"Definition gpo_ctx_reselects_in_loop : bool := {b(has_call('sge_proc.py', 'get_gpo_ctx', is_reselect_loop))}.\n"
            f"Definition parse_list_strips : bool := {b(has_call('loaders/utils.py', 'parse_list', is_parse_list_strip))}.\n"
            f"Definition targeton_name_sorted_ids : bool := {b(has_call('loaders/targeton_config.py', 'name', is_sorted_sgrna))}.\n"
            f"Definition unique_names_sorted : bool := {b(has_call('meta_table.py', 'to_csv', is_names_sort))}.\n"
            f"Definition fetch_sequence_upper : bool := {b(has_call('sge_utils.py', 'fetch_sequence', is_upper))}.\n"
            f'Definition custom_variant_upper_calls : nat := {upper_vcf}.\n')


def _enum_values(rel: str, cls: str) -> dict[str, str]:
    tree = ast.parse(_src(rel))
    for node in tree.body:
        if isinstance(node, ast.ClassDef) and node.name == cls:
            out = {}
            for st in node.body:
                if isinstance(st, ast.Assign) and len(st.targets) == 1 and isinstance(st.targets[0], ast.Name) \
                        and isinstance(st.value, ast.Constant) and isinstance(st.value.value, str):
                    out[st.targets[0].id] = st.value.value
            return out
    raise FactError(f'{rel}: enum {cls} not found')


def _table_refs(node, tables: dict[str, str]) -> list[str]:
    """DbTableName.X attributes under node -> table names."""
    out = []
    for n in ast.walk(node):
        if isinstance(n, ast.Attribute) and isinstance(n.value, ast.Name) and n.value.id == 'DbTableName':
            if n.attr not in tables:
                raise FactError(f'unknown DbTableName.{n.attr}')
            out.append(tables[n.attr])
    return out


WRITE_SQL = re.compile(r'^\s*(?:insert\s+into|update|delete\s+from)\s+(\w+)', flags=re.I)


@extractor('DbTables')
def db_tables() -> str:
    """C13: which tables exist, which are cleared per contig / per targeton, which are written while a targeton is processed."""
    tables = _enum_values('db.py', 'DbTableName')
    ddl = open(os.path.join(common.SRC, 'valiant', 'data', 'ddl.sql')).read()
    ddl_tables = re.findall(r'^create\s+table\s+(\w+)', ddl, flags=re.M | re.I)
    ddl_views = re.findall(r'^create\s+view\s+(\w+)', ddl, flags=re.M | re.I)
    if not ddl_tables:
        raise FactError('no create table in ddl.sql')
    dbt = ast.parse(_src('db.py'))
    sets = {}
    for node in dbt.body:
        tgt = None
        if isinstance(node, ast.AnnAssign) and isinstance(node.target, ast.Name):
            tgt, val = node.target.id, node.value
        elif isinstance(node, ast.Assign) and len(node.targets) == 1 and isinstance(node.targets[0], ast.Name):
            tgt, val = node.targets[0].id, node.value
        if tgt in ('PER_CONTIG_TABLES', 'PER_TARGETON_TABLES'):
            if not isinstance(val, (ast.List, ast.Set)):
                raise FactError(f'{tgt} is not a list/set literal')
            sets[tgt] = _table_refs(val, tables)
            if len(sets[tgt]) != len(val.elts):
                raise FactError(f'{tgt} has elements that are not DbTableName members')
    if set(sets) != {'PER_CONTIG_TABLES', 'PER_TARGETON_TABLES'}:
        raise FactError('PER_CONTIG_TABLES / PER_TARGETON_TABLES not found')
    # queries.py: module-level SQL constants -> table written; clear scripts
    q = ast.parse(_src('queries.py'))
    const_writes: dict[str, list[str]] = {}
    for node in q.body:
        tgt = val = None
        if isinstance(node, ast.Assign) and len(node.targets) == 1 and isinstance(node.targets[0], ast.Name):
            tgt, val = node.targets[0].id, node.value
        elif isinstance(node, ast.AnnAssign) and isinstance(node.target, ast.Name) and node.value is not None:
            tgt, val = node.target.id, node.value
        if tgt is None:
            continue
        if isinstance(val, ast.Constant) and isinstance(val.value, str):
            m = WRITE_SQL.match(val.value)
            if m:
                const_writes[tgt] = [m.group(1)]
        elif isinstance(val, ast.Call) and isinstance(val.func, ast.Attribute) and _names(val.func.value) == 'SqlQuery' \
                and val.func.attr in ('get_insert_values', 'get_insert_names', 'get_insert', 'get_update', 'get_delete'):
            refs = _table_refs(val.args[0], tables) if val.args else []
            if len(refs) != 1:
                raise FactError(f'queries.{tgt}: table of the write statement not recognised')
            const_writes[tgt] = refs
    # call graph over the modules that run while a targeton is processed (name based: an over-approximation)
    mods = ['sge_proc.py', 'targeton.py', 'queries.py', 'meta_table.py', 'cdna_proc.py']
    calls: dict[str, set[str]] = {}
    writes: dict[str, set[str]] = {}
    for rel in mods:
        for node in ast.walk(ast.parse(_src(rel))):
            if isinstance(node, (ast.FunctionDef, ast.AsyncFunctionDef)):
                cs, ws = calls.setdefault(node.name, set()), writes.setdefault(node.name, set())
                for n in ast.walk(node):
                    if isinstance(n, ast.Call):
                        f = n.func
                        if isinstance(f, ast.Name):
                            cs.add(f.id)
                        elif isinstance(f, ast.Attribute):
                            cs.add(f.attr)
                            if _names(f.value) == 'SqlQuery' and f.attr in ('get_update', 'get_delete', 'get_insert', 'get_insert_values', 'get_insert_names'):
                                ws.update(_table_refs(n.args[0], tables) if n.args else [])
                    if isinstance(n, ast.Name) and n.id in const_writes:
                        ws.update(const_writes[n.id])
                    if isinstance(n, ast.Constant) and isinstance(n.value, str):
                        m = WRITE_SQL.match(n.value)
                        if m:
                            ws.add(m.group(1))

    def reach(root: str) -> list[str]:
        if root not in calls:
            raise FactError(f'function {root} not found')
        seen, todo = set(), [root]
        while todo:
            f = todo.pop()
            if f in seen or f not in calls:
                continue
            seen.add(f)
            todo += list(calls[f])
        return sorted(set(t for f in seen for t in writes.get(f, ())))

    def first_calls(rel: str, func: str, k: int) -> list[str]:
        for node in ast.walk(ast.parse(_src(rel))):
            if isinstance(node, ast.FunctionDef) and node.name == func:
                out = []
                body = [st for st in node.body if not (isinstance(st, ast.Expr) and isinstance(st.value, ast.Constant))]
                for st in body[:k]:
                    if isinstance(st, ast.Expr) and isinstance(st.value, ast.Call) and isinstance(st.value.func, ast.Attribute) \
                            and st.value.func.attr == 'execute' and _names(st.value.func.value):
                        out.append(st.value.func.value.id)
                    else:
                        out.append('<other>')
                return out
        raise FactError(f'{rel}: function {func} not found')

    # the clear scripts delete from exactly the two sets
    clears = {}
    for node in q.body:
        if isinstance(node, ast.Assign) and len(node.targets) == 1 and _names(node.targets[0]) in ('clear_per_contig_tables', 'clear_per_targeton_tables'):
            src = ast.unparse(node.value)
            m = re.fullmatch(r'SqlScript\.from_queries\(map\(SqlQuery\.get_delete, (\w+)\)\)', src)
            if not m:
                raise FactError(f'{_names(node.targets[0])} is not SqlScript.from_queries(map(SqlQuery.get_delete, ...))')
            clears[_names(node.targets[0])] = m.group(1)
    if clears != {'clear_per_contig_tables': 'PER_CONTIG_TABLES', 'clear_per_targeton_tables': 'PER_TARGETON_TABLES'}:
        raise FactError(f'clear scripts not recognised: {clears}')
    sl = lambda l: '[' + '; '.join(coq_str(x) for x in l) + ']'
    return ('From Coq Require Import String List.\nImport ListNotations.\nLocal Open Scope string_scope.\n'
            'Definition fact_extracted : bool := true.\n'
            f'Definition ddl_tables : list string := {sl(ddl_tables)}.\n'
            f'Definition ddl_views : list string := {sl(ddl_views)}.\n'
            f"Definition per_contig_tables : list string := {sl(sets['PER_CONTIG_TABLES'])}.\n"
            f"Definition per_targeton_tables : list string := {sl(sets['PER_TARGETON_TABLES'])}.\n"
            f"Definition sge_targeton_writes : list string := {sl(reach('proc_targeton'))}.\n"
            f"Definition sge_contig_writes : list string := {sl(reach('proc_contig'))}.\n"
            f"Definition sge_proc_targeton_first : list string := {sl(first_calls('sge_proc.py', 'proc_targeton', 1))}.\n"
            f"Definition sge_proc_contig_first : list string := {sl(first_calls('sge_proc.py', 'proc_contig', 1))}.\n"
            f"Definition cdna_proc_targeton_first : list string := {sl(first_calls('cdna_proc.py', 'proc_targeton', 2))}.\n")


def _pydantic_fields(rel: str, cls: str) -> list[tuple[str, str, bool]]:
    """[(python name, alias or python name, has a default)] of the annotated Field(...) assignments of a class."""
    tree = ast.parse(_src(rel))
    for node in tree.body:
        if isinstance(node, ast.ClassDef) and node.name == cls:
            out = []
            for st in node.body:
                if isinstance(st, ast.AnnAssign) and isinstance(st.target, ast.Name):
                    v = st.value
                    if not (isinstance(v, ast.Call) and _names(v.func) == 'Field'):
                        raise FactError(f'{cls}.{st.target.id} is not declared with Field(...)')
                    if v.args:
                        raise FactError(f'{cls}.{st.target.id}: positional Field arguments are not modelled')
                    kw = {k.arg: k.value for k in v.keywords}
                    if set(kw) - {'alias', 'default', 'discriminator'}:
                        raise FactError(f'{cls}.{st.target.id}: unexpected Field keywords {sorted(kw)}')
                    alias = kw['alias'].value if 'alias' in kw and isinstance(kw['alias'], ast.Constant) else st.target.id
                    out.append((st.target.id, alias, 'default' in kw))
            return out
    raise FactError(f'{rel}: class {cls} not found')


def _click_command(rel: str, func: str):
    """-> (parameter names of the command function, {kwarg: value name} of the single Config(...) call in it, config class)."""
    tree = ast.parse(_src(rel))
    for node in tree.body:
        if isinstance(node, ast.FunctionDef) and node.name == func:
            params = [a.arg for a in node.args.args]
            calls = [n for n in ast.walk(node) if isinstance(n, ast.Call) and _names(n.func) in ('SGEConfig', 'CDNAConfig')]
            if len(calls) != 1 or calls[0].args:
                raise FactError(f'{rel}.{func}: expected exactly one keyword-only Config(...) call')
            kws = {}
            for k in calls[0].keywords:
                if k.arg is None or _names(k.value) is None:
                    raise FactError(f'{rel}.{func}: Config argument {k.arg} is not a plain name')
                kws[k.arg] = k.value.id
            opts = {}     # destination parameter -> option spelling, from the decorators of this command
            for dec in node.decorator_list:
                if isinstance(dec, ast.Call) and isinstance(dec.func, ast.Attribute) and dec.func.attr in ('option', 'argument'):
                    strs = [a.value for a in dec.args if isinstance(a, ast.Constant) and isinstance(a.value, str)]
                    if not strs:
                        raise FactError(f'{rel}.{func}: click decorator without a name')
                    first = strs[0]
                    dest = strs[1] if len(strs) > 1 and not strs[1].startswith('-') else first.lstrip('-').replace('-', '_')
                    opts[dest] = first.lstrip('-')
            return params, kws, _names(calls[0].func), opts
    raise FactError(f'{rel}: command {func} not found')


def _common_options() -> dict[str, str]:
    tree = ast.parse(_src('common_cli.py'))
    for node in tree.body:
        if isinstance(node, ast.FunctionDef) and node.name == 'common_params':
            opts = {}
            for inner in node.body:
                if isinstance(inner, ast.FunctionDef):
                    for dec in inner.decorator_list:
                        if isinstance(dec, ast.Call) and isinstance(dec.func, ast.Attribute) and dec.func.attr in ('option', 'argument'):
                            strs = [a.value for a in dec.args if isinstance(a, ast.Constant) and isinstance(a.value, str)]
                            first = strs[0]
                            dest = strs[1] if len(strs) > 1 and not strs[1].startswith('-') else first.lstrip('-').replace('-', '_')
                            opts[dest] = first.lstrip('-')
            return opts
    raise FactError('common_params not found')


@extractor('ConfigFields')
def config_fields() -> str:
    """C16: configuration fields and aliases, CLI parameters forwarded to them, README tables."""
    base = _pydantic_fields('config.py', 'BaseConfig')
    sge = _pydantic_fields('sge_config.py', 'SGEConfig')
    cdna = _pydantic_fields('cdna_config.py', 'CDNAConfig')
    main = _pydantic_fields('main_config.py', 'BaseMainConfig')
    sp, skw, scls, sopts = _click_command('sge_cli.py', 'sge')
    cp, ckw, ccls, copts = _click_command('cdna_cli.py', 'cdna')
    common = _common_options()
    if scls != 'SGEConfig' or ccls != 'CDNAConfig':
        raise FactError('commands do not build SGEConfig / CDNAConfig')
    # by_alias dump, populate_by_name load
    for rel, fn in (('config.py', 'write'), ('main_config.py', 'write')):
        src = _src(rel)
        if 'model_dump_json(by_alias=True)' not in src:
            raise FactError(f'{rel}: write() does not dump by alias')
    pop = all('populate_by_name = True' in _src(r) for r in ('config.py', 'main_config.py'))
    # __init__ validates: `if not ...is_valid(): raise InvalidConfig()`
    init_validates = bool(re.search(r'def __init__\(.*?\n(?:.*\n)*?\s+if not \w+\.is_valid\(\):\s*\n\s+raise InvalidConfig\(\)', _src('config.py')))
    # README tables
    readme = open(os.path.join(common_mod().REPO, 'README.md')).read()
    sec = readme.split('### Configuration file', 1)[1].split('\n### ', 1)[0]
    pairs = re.findall(r'^\|`([\w\-]+)`\|`(\w+)`\|\s*$', sec, flags=re.M)
    if len(pairs) < 10:
        raise FactError('README CLI / JSON property tables not recognised')

    def fl(fs):
        return '[' + '; '.join(f'({coq_str(n)}, {coq_str(a)}, {"true" if d else "false"})' for n, a, d in fs) + ']'

    def pl(d):
        return '[' + '; '.join(f'({coq_str(k)}, {coq_str(v)})' for k, v in d.items()) + ']'
    sl = lambda l: '[' + '; '.join(coq_str(x) for x in l) + ']'
    return ('From Coq Require Import String List Bool.\nImport ListNotations.\nLocal Open Scope string_scope.\n'
            'Definition fact_extracted : bool := true.\n'
            f'Definition base_fields : list (string * string * bool) := {fl(base)}.\n'
            f'Definition sge_fields : list (string * string * bool) := {fl(sge)}.\n'
            f'Definition cdna_fields : list (string * string * bool) := {fl(cdna)}.\n'
            f'Definition main_fields : list (string * string * bool) := {fl(main)}.\n'
            f'Definition sge_cli_params : list string := {sl(sp)}.\n'
            f'Definition cdna_cli_params : list string := {sl(cp)}.\n'
            f'Definition sge_cli_forward : list (string * string) := {pl(skw)}.\n'
            f'Definition cdna_cli_forward : list (string * string) := {pl(ckw)}.\n'
            f'Definition sge_cli_options : list (string * string) := {pl({**common, **sopts})}.\n'
            f'Definition cdna_cli_options : list (string * string) := {pl({**common, **copts})}.\n'
            f'Definition readme_cli_json : list (string * string) := {pl(dict(pairs))}.\n'
            f'Definition populate_by_name : bool := {"true" if pop else "false"}.\n'
            f'Definition init_validates : bool := {"true" if init_validates else "false"}.\n')


def common_mod():
    return common


KERNEL_GROUPS = {
    # generated file -> [(module, python name, Coq name, type of self)]; one file per group so that an untranslatable edit in
    # one kernel breaks only the obligations of the properties that rest on it
    'KernelsFrame': [
        ('utils.py', 'get_codon_offset_complement', 'k_codon_offset_complement', None),
        ('utils.py', 'get_cds_ext_3_length', 'k_cds_ext_3_length', None),
        ('utils.py', 'clamp_non_negative', 'k_clamp_non_negative', None),
        ('utils.py', 'get_end', 'k_get_end', None),
        ('exon.py', 'Exon.compl_frame', 'k_exon_compl_frame', 'exon'),
        ('exon.py', 'Exon.cds_prefix_length', 'k_exon_cds_prefix_length', 'exon'),
        ('exon.py', 'Exon.cds_suffix_length', 'k_exon_cds_suffix_length', 'exon'),
        ('exon.py', 'Exon.next_exon_frame', 'k_exon_next_exon_frame', 'exon'),
        ('exon.py', 'Exon.get_first_codon_start', 'k_exon_first_codon_start', 'exon'),
        ('exon.py', 'Exon.get_codon_index_at', 'k_exon_codon_index_at', 'exon'),
        ('exon.py', 'get_codon_range', 'k_get_codon_range', None),
        ('transcript.py', 'get_range_cds_exts', 'k_get_range_cds_exts', None),
    ],
    'KernelsPattern': [
        ('int_pattern_builder.py', 'IntPatternBuilder.build', 'k_pattern_build', 'pt'),
        ('uint_range.py', 'UIntRange.from_length', 'k_range_from_length', 'range'),
    ],
    'KernelsTargeton': [
        ('uint_range.py', 'UIntRange.get_before', 'k_range_get_before', 'range'),
        ('uint_range.py', 'UIntRange.get_after', 'k_range_get_after', 'range'),
        ('loaders/targeton_config.py', 'TargetonConfig.__post_init__', 'k_targeton_post_init', 'tcfg'),
        ('loaders/targeton_config.py', 'TargetonConfig.get_region_1', 'k_targeton_region_1', 'tcfg'),
        ('loaders/targeton_config.py', 'TargetonConfig.get_region_3', 'k_targeton_region_3', 'tcfg'),
        ('loaders/targeton_config.py', 'TargetonConfig.get_const_1', 'k_targeton_const_1', 'tcfg'),
        ('loaders/targeton_config.py', 'TargetonConfig.get_const_2', 'k_targeton_const_2', 'tcfg'),
    ],
    'KernelsAnnot': [
        ('annot_variant.py', 'get_codon_range_offset', 'k_codon_range_offset', None),
        # the in-frame part of a coding region (None when it holds no complete codon: the defect repaired in cae8953)
        ('utils.py', 'get_codon_offset_complement', 'ka_codon_offset_complement', None),
        ('cds_seq.py', 'CdsSeq.cds_prefix_length', 'k_cds_prefix_length', 'cds'),
        ('cds_seq.py', 'CdsSeq.cds_suffix_length', 'k_cds_suffix_length', 'cds'),
        ('cds_seq.py', 'CdsSeq.get_inner_cds_range', 'k_cds_inner_range', 'cds'),
        ('cds_seq.py', 'CdsSeq.ext_start', 'k_cds_ext_start', 'cds'),
    ],
    # MAVE-HGVS strings: every function of mave_hgvs.py (f-strings, optional strings, the VariantType / MAVEPrefix enums of enums.py)
    'KernelsMave': [
        ('mave_hgvs.py', '_get_del_position', 'k_del_position', None),
        ('mave_hgvs.py', '_get_delin_mave_nt_suffix', 'k_delin_suffix', None),
        ('mave_hgvs.py', '_get_snv_mave_nt_suffix', 'k_snv_suffix', None),
        ('mave_hgvs.py', '_get_substitution_mave_nt_suffix', 'k_substitution_suffix', None),
        ('mave_hgvs.py', '_get_insertion_mave_nt_suffix', 'k_insertion_suffix', None),
        ('mave_hgvs.py', '_raise_invalid_deletion', 'k_raise_invalid_deletion', None),
        ('mave_hgvs.py', '_get_deletion_mave_nt_suffix', 'k_deletion_suffix', None),
        ('mave_hgvs.py', '_get_mave_nt', 'k_mave_nt_prefixed', None),
        ('mave_hgvs.py', 'get_mave_nt', 'k_get_mave_nt', None),
    ],
}
KERNEL_GROUPS['KernelsNames'] = [
    # oligonucleotide names: Variant.get_oligo_name_frag with the properties it reads, and the name functions of meta_table.py
    ('utils.py', 'clamp_non_negative', 'kn_clamp_non_negative', None),
    ('utils.py', 'get_end', 'kn_get_end', None),
    ('variant.py', '_raise_no_ref_alt', 'k_raise_no_ref_alt', None),
    ('variant.py', 'Variant.ref_len', 'k_var_ref_len', 'variant'),
    ('variant.py', 'Variant.ref_end', 'k_var_ref_end', 'variant'),
    ('variant.py', 'Variant.type', 'k_var_type', 'variant'),
    ('variant.py', 'Variant.get_oligo_name_frag', 'k_var_name_frag', 'variant'),
    ('meta_table.py', 'get_transcript_frag', 'k_transcript_frag', None),
    ('meta_table.py', 'get_sge_oligo_no_op_name', 'k_sge_no_op_name', None),
    ('meta_table.py', 'get_sge_oligo_name', 'k_sge_oligo_name', None),
    ('meta_table.py', 'get_cdna_oligo_name', 'k_cdna_oligo_name', None),
]
KERNEL_GROUPS['KernelsLift'] = [
    # the range / variant-statistics predicates the liftover (clamp_var_stats_collection) and the codon clamping (Exon.get_codon, Seq.get_rel_range) rest on
    ('utils.py', 'clamp_non_negative', 'kl_clamp_non_negative', None),
    ('utils.py', 'get_end', 'kl_get_end', None),
    ('var_stats.py', 'VarStats.alt_ref_delta', 'k_vs_alt_ref_delta', 'vstat'),
    ('var_stats.py', 'VarStats.ref_end', 'k_vs_ref_end', 'vstat'),
    ('var_stats.py', 'VarStats.is_in_range', 'k_vs_is_in_range', 'vstat'),
    ('uint_range.py', 'UIntRange.overlaps', 'k_range_overlaps', 'range'),
    ('uint_range.py', 'UIntRange.intersect', 'k_range_intersect', 'range'),
    ('uint_range.py', 'UIntRange.offset', 'k_range_offset', 'range'),
    # the codon of an exon, clamped to it (Exon.get_codon / get_codon_at), with what it calls
    ('utils.py', 'get_codon_offset_complement', 'kl_codon_offset_complement', None),
    ('exon.py', 'Exon.compl_frame', 'kl_exon_compl_frame', 'exon'),
    ('exon.py', 'Exon.cds_prefix_length', 'kl_exon_cds_prefix_length', 'exon'),
    ('exon.py', 'Exon.get_first_codon_start', 'kl_exon_first_codon_start', 'exon'),
    ('exon.py', 'Exon.get_codon_index_at', 'kl_exon_codon_index_at', 'exon'),
    ('exon.py', 'get_codon_range', 'kl_get_codon_range', None),
    ('exon.py', 'Exon.get_codon', 'k_exon_get_codon', 'exon'),
    ('exon.py', 'Exon.get_codon_at', 'k_exon_get_codon_at', 'exon'),
    # the codon indices of the part of an exon a range covers (ascending, or descending along the genome on the minus strand)
    ('exon.py', 'Exon.get_codon_indices', 'k_exon_get_codon_indices', 'exon'),
]
KERNEL_GROUPS['KernelsGpo'] = [
    # the liftover tables of GenomicPositionOffsets: loops over the sorted variant statistics (for -> fold_m / fold_x)
    ('var_stats.py', 'VarStats.alt_ref_delta', 'kg_vs_alt_ref_delta', 'vstat'),
    ('var_stats.py', 'get_alt_ref_delta', 'k_get_alt_ref_delta', None),
    ('genomic_position_offsets.py', 'get_pos_offset', 'k_get_pos_offset', None),
    ('genomic_position_offsets.py', '_compute_ref_offsets', 'k_compute_ref_offsets', None),
    ('genomic_position_offsets.py', '_compute_ref_del_mask', 'k_compute_ref_del_mask', None),
    ('genomic_position_offsets.py', '_compute_alt_ins_mask', 'k_compute_alt_ins_mask', None),
    # the methods of GenomicPositionOffsets that read those tables: ALT -> REF positions and the overlap test of ALT-coordinate variants
    ('utils.py', 'clamp_non_negative', 'kg_clamp_non_negative', None),
    ('utils.py', 'get_end', 'kg_get_end', None),
    ('uint_range.py', 'UIntRange.positions', 'k_range_positions', 'range'),
    ('variant.py', 'Variant.ref_len', 'kg_var_ref_len', 'variant'),
    ('variant.py', 'Variant.ref_end', 'kg_var_ref_end', 'variant'),
    ('genomic_position_offsets.py', 'GenomicPositionOffsets._get_ref_pos_offset', 'k_gpo_get_ref_pos_offset', 'kgpo'),
    ('genomic_position_offsets.py', 'GenomicPositionOffsets._get_alt_pos_offset', 'k_gpo_get_alt_pos_offset', 'kgpo'),
    ('genomic_position_offsets.py', 'GenomicPositionOffsets.ref_start', 'k_gpo_ref_start', 'kgpo'),
    ('genomic_position_offsets.py', 'GenomicPositionOffsets.ref_length', 'k_gpo_ref_length', 'kgpo'),
    ('genomic_position_offsets.py', 'GenomicPositionOffsets.alt_end', 'k_gpo_alt_end', 'kgpo'),
    ('genomic_position_offsets.py', 'GenomicPositionOffsets._ref_to_alt_offset', 'k_gpo_ref_to_alt_offset', 'kgpo'),
    ('genomic_position_offsets.py', 'GenomicPositionOffsets.get_offset', 'k_gpo_get_offset', 'kgpo'),
    ('genomic_position_offsets.py', 'GenomicPositionOffsets.validate_ref_position', 'k_gpo_validate_ref_position', 'kgpo'),
    ('genomic_position_offsets.py', 'GenomicPositionOffsets.validate_alt_position', 'k_gpo_validate_alt_position', 'kgpo'),
    ('genomic_position_offsets.py', 'GenomicPositionOffsets._pos_to_offset', 'k_gpo_pos_to_offset', 'kgpo'),
    ('genomic_position_offsets.py', 'GenomicPositionOffsets._offset_to_pos', 'k_gpo_offset_to_pos', 'kgpo'),
    ('genomic_position_offsets.py', 'GenomicPositionOffsets.alt_pos_exists_in_ref', 'k_gpo_alt_pos_exists_in_ref', 'kgpo'),
    ('genomic_position_offsets.py', 'GenomicPositionOffsets.ref_pos_exists_in_alt', 'k_gpo_ref_pos_exists_in_alt', 'kgpo'),
    ('genomic_position_offsets.py', 'GenomicPositionOffsets.ref_pos_overlaps_var', 'k_gpo_ref_pos_overlaps_var', 'kgpo'),
    ('genomic_position_offsets.py', 'GenomicPositionOffsets._alt_to_ref_position', 'k_gpo_alt_to_ref_position_unsafe', 'kgpo'),
    ('genomic_position_offsets.py', 'GenomicPositionOffsets.alt_to_ref_position', 'k_gpo_alt_to_ref_position', 'kgpo'),
    ('genomic_position_offsets.py', 'GenomicPositionOffsets._ref_offset_to_alt_pos', 'k_gpo_ref_offset_to_alt_pos', 'kgpo'),
    ('genomic_position_offsets.py', 'GenomicPositionOffsets.alt_var_overlaps_var', 'k_gpo_alt_var_overlaps_var', 'kgpo'),
    # the construction: clamp_var_stats_collection (sorted(..., key=pos) is Model/Gpo.v sort_by_pos) and from_var_stats with __post_init__
    ('var_stats.py', 'VarStats.ref_end', 'kg_vs_ref_end', 'vstat'),
    ('var_stats.py', 'VarStats.is_in_range', 'kg_vs_is_in_range', 'vstat'),
    ('var_stats.py', 'clamp_var_stats_collection', 'k_clamp_var_stats_collection', None),
    ('genomic_position_offsets.py', 'GenomicPositionOffsets.__post_init__', 'k_gpo_post_init', 'kgpo'),
    ('genomic_position_offsets.py', 'GenomicPositionOffsets.from_var_stats', 'k_gpo_from_var_stats', 'kgpo'),
    # the overlap test of a REF-coordinate variant: Variant.any_pos takes the bound method ref_pos_overlaps_var as a callback
    ('variant.py', 'Variant.ref_range', 'kg_var_ref_range', 'variant'),
    ('variant.py', 'Variant.any_pos', 'k_var_any_pos', 'variant'),
    ('genomic_position_offsets.py', 'GenomicPositionOffsets.ref_var_overlaps_var', 'k_gpo_ref_var_overlaps_var', 'kgpo'),
    # array_utils.get_prev_index (a while loop that returns from inside): proved equal to the definition the SEARCH_F table is read with
    ('array_utils.py', 'get_prev_index', 'k_get_prev_index', None),
    ('array_utils.py', 'get_next_index', 'k_get_next_index', None),
    # REF -> ALT (the nearest-position search goes through the SEARCH_F table to two array_utils functions: Model/PyLoop.v u8_prev_index / u8_next_index)
    ('genomic_position_offsets.py', 'GenomicPositionOffsets.ref_to_alt_position', 'k_gpo_ref_to_alt_position', 'kgpo'),
    ('genomic_position_offsets.py', 'GenomicPositionOffsets.ref_to_alt_range', 'k_gpo_ref_to_alt_range', 'kgpo'),
]
KERNEL_BUILTINS = {'KernelsGpo': ('get_u8_array', 'get_prev_index', 'get_next_index', 'array.index')}
KERNEL_GROUPS['KernelsExons'] = [
    # UIntRangeSortedList.get_before / get_after: the positions that complete a codon across exon junctions (while loops over the neighbouring exons)
    ('uint_range.py', 'UIntRangeSortedList.get_before', 'k_exons_get_before', 'list:exon'),
    ('uint_range.py', 'UIntRangeSortedList.get_after', 'k_exons_get_after', 'list:exon'),
]
KERNEL_GROUPS['KernelsCounts'] = [
    # OligoGenerationInfo: the counters of the length filter (methods that assign fields of self return the new record)
    ('oligo_generation_info.py', 'OligoGenerationInfo.short_oligo_n', 'k_info_short_oligo_n', 'counts'),
    ('oligo_generation_info.py', 'OligoGenerationInfo.long_oligo_n', 'k_info_long_oligo_n', 'counts'),
    ('oligo_generation_info.py', 'OligoGenerationInfo.out_of_range_n', 'k_info_out_of_range_n', 'counts'),
    ('oligo_generation_info.py', 'OligoGenerationInfo.update', 'k_info_update', 'counts'),
    ('oligo_generation_info.py', 'OligoGenerationInfo.eval_in_range', 'k_info_eval_in_range', 'counts'),
]
KERNEL_GROUPS['KernelsMetaRow'] = [
    # MetaRow: the span a row is reported on when it shares a codon with a PAM edit (optional fields narrowed by `is None`)
    ('meta_row.py', 'MetaRow.alt_ref_range', 'k_mr_alt_ref_range', 'mrow'),
    ('meta_row.py', 'MetaRow.overlaps_codon', 'k_mr_overlaps_codon', 'mrow'),
    ('meta_row.py', 'MetaRow.pam_ref_start', 'k_mr_pam_ref_start', 'mrow'),
    ('meta_row.py', 'MetaRow.pam_ref_end', 'k_mr_pam_ref_end', 'mrow'),
    ('meta_row.py', 'MetaRow.pam_ref_range', 'k_mr_pam_ref_range', 'mrow'),
]
KERNEL_GROUPS['KernelsDnaStr'] = [
    # DnaStr.replace_substr / insert_substr: how a variant is spliced into a template (slices, f-strings of DNA text)
    ('strings/dna_str.py', 'DnaStr.replace_substr', 'k_dna_replace_substr', 'dna'),
    ('strings/dna_str.py', 'DnaStr.insert_substr', 'k_dna_insert_substr', 'dna'),
    # ... and the way from a variant to the altered sequence: alter_seq -> Seq.alter -> Seq.replace_substr / insert_substr (absolute coordinates)
    ('utils.py', 'clamp_non_negative', 'kd_clamp_non_negative', None),
    ('utils.py', 'get_end', 'kd_get_end', None),
    ('uint_range.py', 'UIntRange.offset', 'kd_range_offset', 'range'),
    ('variant.py', '_raise_no_ref_alt', 'kd_raise_no_ref_alt', None),
    ('variant.py', 'Variant.ref_len', 'kd_var_ref_len', 'variant'),
    ('variant.py', 'Variant.ref_end', 'kd_var_ref_end', 'variant'),
    ('variant.py', 'Variant.ref_range', 'kd_var_ref_range', 'variant'),
    ('variant.py', 'Variant.type', 'kd_var_type', 'variant'),
    ('variant.py', 'Variant.is_insertion', 'kd_var_is_insertion', 'variant'),
    ('seq.py', 'Seq.get_rel_range', 'k_seq_get_rel_range', 'seq'),
    ('seq.py', 'Seq.get_rel_pos', 'k_seq_get_rel_pos', 'seq'),
    ('seq.py', 'Seq.replace_substr', 'k_seq_replace_substr', 'seq'),
    ('seq.py', 'Seq.insert_substr', 'k_seq_insert_substr', 'seq'),
    ('seq.py', 'Seq.alter', 'k_seq_alter', 'seq'),
    ('oligo_seq.py', 'alter_seq', 'k_alter_seq', None),
]
KERNEL_EXTRA_SOURCES = {'KernelsMave': ['enums.py'], 'KernelsNames': ['enums.py', 'constants.py'], 'KernelsLift': ['enums.py'], 'KernelsGpo': ['enums.py'], 'KernelsDnaStr': ['enums.py']}
KERNEL_CONSTS = {'KernelsNames': ('REVCOMP_OLIGO_NAME_SUFFIX',)}
KERNEL_IMPORTS = {'KernelsTargeton': ' Model.Targeton', 'KernelsMave': ' Model.Seq Model.Vcf Model.Mave Model.PyStr',
                  'KernelsNames': ' Model.Seq Model.Vcf Model.Mave Model.PyStr', 'KernelsLift': ' Model.Seq Model.Vcf Model.Gpo Model.PyLoop',
                  'KernelsGpo': ' Model.Seq Model.Vcf Model.Gpo Model.PyStr Model.PyLoop', 'KernelsExons': ' Model.PyLoop', 'KernelsCounts': ' Model.Unique Model.PyLoop',
                  'KernelsMetaRow': ' Model.Seq Model.Vcf Model.Mave Model.Gpo Model.ToCsv', 'KernelsDnaStr': ' Model.Seq Model.Vcf Model.Mave Model.PyStr Model.PyLoop'}


KERNEL_IMPORTS['KernelsAnnot'] = ' Model.PyLoop'


def _kernel_extractor(name):
    def f() -> str:
        from . import pytrans
        targets = KERNEL_GROUPS[name]
        sources = {m: _src(m) for m in sorted({t[0] for t in targets} | set(KERNEL_EXTRA_SOURCES.get(name, [])))}
        body = pytrans.translate(sources, targets, KERNEL_CONSTS.get(name, ()), KERNEL_BUILTINS.get(name, ()))
        pre = '(* IntPatternBuilder(offset, span) *)\nRecord pt := mkPt { pt_offset : Z; pt_span : Z }.\n\n' if name == 'KernelsPattern' else ''
        return ('(* translated from the source by harness/pytrans.py *)\nFrom VV Require Import Model.Base Model.Pattern Model.Transcript' + KERNEL_IMPORTS.get(name, '') + '.\n'
                'Definition fact_extracted : bool := true.\n' + pre + body)
    f.__doc__ = 'Pure arithmetic kernels translated from the source by harness/pytrans.py (fail closed).'
    return f


for _name in KERNEL_GROUPS:
    EXTRACTORS[_name] = _kernel_extractor(_name)
