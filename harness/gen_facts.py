"""Fail-closed extractors: re-read facts from /repo's current source into coq/Generated/*.v.

Each extractor either recognises exactly the construct it expects or raises FactError; the
failure is recorded and the Generated file is written with an unprovable placeholder so the
dependent obligation fails by name (never silently)."""
from __future__ import annotations

import ast
import csv
import os
import re

from . import common

GEN = os.path.join(common.COQ, 'Generated')


class FactError(Exception):
    pass


def _src(rel: str) -> str:
    with open(os.path.join(common.SRC, 'valiant', rel)) as fh:
        return fh.read()


def _write_if_changed(fp: str, text: str) -> None:
    old = None
    if os.path.exists(fp):
        with open(fp) as fh:
            old = fh.read()
    if old != text:
        with open(fp, 'w') as fh:
            fh.write(text)


def coq_str(s: str) -> str:
    return '"' + s.replace('"', '""') + '"'


EXTRACTORS = {}


def extractor(name):
    def deco(f):
        EXTRACTORS[name] = f
        return f
    return deco


def generate() -> dict:
    os.makedirs(GEN, exist_ok=True)
    status = {}
    for name, f in EXTRACTORS.items():
        fp = os.path.join(GEN, name + '.v')
        try:
            text = f()
            status[name] = 'ok'
        except Exception as ex:  # fail closed
            status[name] = f'FAILED: {type(ex).__name__}: {ex}'
            text = ('(* fact not extractable: %s *)\nFrom Coq Require Import String List.\n'
                    'Definition fact_extracted : bool := false.\n') % str(ex).replace('*)', '* )')
        _write_if_changed(fp, '(* GENERATED from /repo by harness/gen_facts.py - do not edit *)\n' + text)
    return status


@extractor('DefaultTable')
def default_table() -> str:
    fp = os.path.join(common.SRC, 'valiant', 'data', 'default_codon_table.csv')
    rows = []
    with open(fp, newline='') as fh:
        for r in csv.reader(fh):
            if len(r) != 4:
                raise FactError(f'default table row with {len(r)} fields')
            codon, aa, freq, rank = r
            if not re.fullmatch(r'[ACGT]{3}', codon) or not re.fullmatch(r'RANK(\d+|U|T|UT)', rank):
                raise FactError(f'unrecognised default table row {r}')
            k = 1 if rank[4:] in ('U', 'T', 'UT') else int(rank[4:])
            rows.append(f'  mkRow (d {coq_str(codon)}) {coq_str(aa)} {k}')
    return ('From VV Require Import Model.Base Model.Pattern Model.CodonTable.\nLocal Open Scope string_scope.\n'
            'Definition fact_extracted : bool := true.\n'
            'Definition default_rows : list crow := [\n' + ';\n'.join(rows) + '].\n')
