"""Fail-closed extractors: re-read facts from /repo's current source into coq/Generated/*.v.

Each extractor either recognises exactly the construct it expects or raises FactError; the
failure is recorded and the Generated file is written with an unprovable placeholder so the
dependent obligation fails by name (never silently)."""
from __future__ import annotations

import ast
import csv
import os
import re

from . import common

GEN = os.path.join(common.COQ, 'Generated')


class FactError(Exception):
    pass


def _src(rel: str) -> str:
    with open(os.path.join(common.SRC, 'valiant', rel)) as fh:
        return fh.read()


def _write_if_changed(fp: str, text: str) -> None:
    old = None
    if os.path.exists(fp):
        with open(fp) as fh:
            old = fh.read()
    if old != text:
        with open(fp, 'w') as fh:
            fh.write(text)


def coq_str(s: str) -> str:
    return '"' + s.replace('"', '""') + '"'


EXTRACTORS = {}


def extractor(name):
    def deco(f):
        EXTRACTORS[name] = f
        return f
    return deco


def generate() -> dict:
    os.makedirs(GEN, exist_ok=True)
    status = {}
    for name, f in EXTRACTORS.items():
        fp = os.path.join(GEN, name + '.v')
        try:
            text = f()
            status[name] = 'ok'
        except Exception as ex:  # fail closed
            status[name] = f'FAILED: {type(ex).__name__}: {ex}'
            text = ('(* fact not extractable: %s *)\nFrom Coq Require Import String List.\n'
                    'Definition fact_extracted : bool := false.\n') % str(ex).replace('*)', '* )')
        _write_if_changed(fp, '(* GENERATED from /repo by harness/gen_facts.py - do not edit *)\n' + text)
    return status


@extractor('DefaultTable')
def default_table() -> str:
    fp = os.path.join(common.SRC, 'valiant', 'data', 'default_codon_table.csv')
    rows = []
    with open(fp, newline='') as fh:
        for r in csv.reader(fh):
            if len(r) != 4:
                raise FactError(f'default table row with {len(r)} fields')
            codon, aa, freq, rank = r
            if not re.fullmatch(r'[ACGT]{3}', codon) or not re.fullmatch(r'RANK(\d+|U|T|UT)', rank):
                raise FactError(f'unrecognised default table row {r}')
            k = 1 if rank[4:] in ('U', 'T', 'UT') else int(rank[4:])
            rows.append(f'  mkRow (d {coq_str(codon)}) {coq_str(aa)} {k}')
    return ('From VV Require Import Model.Base Model.Pattern Model.CodonTable.\nLocal Open Scope string_scope.\n'
            'Definition fact_extracted : bool := true.\n'
            'Definition default_rows : list crow := [\n' + ';\n'.join(rows) + '].\n')


def _names(node):
    return node.id if isinstance(node, ast.Name) else None


@extractor('MetaFields')
def meta_fields() -> str:
    tree = ast.parse(_src('meta_table.py'))
    fields = None
    writer = noop = None
    for node in tree.body:
        if isinstance(node, ast.Assign) and any(isinstance(t, ast.Name) and t.id == 'META_CSV_FIELDS' for t in node.targets):
            if not isinstance(node.value, ast.List) or not all(isinstance(e, ast.Constant) and isinstance(e.value, str) for e in node.value.elts):
                raise FactError('META_CSV_FIELDS is not a list of string literals')
            fields = [e.value for e in node.value.elts]
        if isinstance(node, ast.FunctionDef) and node.name == 'write_meta_record':
            writer = node
        if isinstance(node, ast.FunctionDef) and node.name == 'write_no_op_meta_record':
            noop = node
    if fields is None or writer is None or noop is None:
        raise FactError('META_CSV_FIELDS / write_meta_record / write_no_op_meta_record not found')
    params = [a.arg for a in writer.args.args][1:]
    order = []
    for st in writer.body:
        if not isinstance(st, ast.Expr) or not isinstance(st.value, ast.Call):
            raise FactError('unexpected statement in write_meta_record')
        call = st.value
        fn = call.func
        if isinstance(fn, ast.Name) and fn.id == '_write_field':
            if len(call.args) != 2 or _names(call.args[0]) != 'fh':
                raise FactError('unexpected _write_field call')
            x = call.args[1]
            if isinstance(x, ast.Call) and isinstance(x.func, ast.Name) and x.func.id == 'str' and len(x.args) == 1:
                x = x.args[0]
            if _names(x) is None:
                raise FactError('unexpected _write_field argument')
            order.append(x.id)
        elif isinstance(fn, ast.Attribute) and fn.attr == 'write' and _names(fn.value) == 'fh':
            x = call.args[0]
            if isinstance(x, ast.Constant) and x.value == '\n':
                order.append('<newline>')
            elif _names(x):
                order.append(x.id)
            else:
                raise FactError('unexpected fh.write argument')
        else:
            raise FactError('unexpected call in write_meta_record')
    # write_no_op_meta_record: a single call of write_meta_record
    calls = [st.value for st in noop.body if isinstance(st, ast.Expr) and isinstance(st.value, ast.Call)]
    if len(calls) != 1 or _names(calls[0].func) != 'write_meta_record' or calls[0].keywords:
        raise FactError('write_no_op_meta_record is not a single positional call of write_meta_record')
    noop_args = []
    for a in calls[0].args[1:]:
        if isinstance(a, ast.Name):
            noop_args.append(a.id)
        elif isinstance(a, ast.Constant):
            noop_args.append(f'<{a.value!r}>')
        elif isinstance(a, ast.UnaryOp) and isinstance(a.op, ast.USub) and isinstance(a.operand, ast.Constant):
            noop_args.append(f'<-{a.operand.value!r}>')
        else:
            raise FactError('unexpected argument in write_no_op_meta_record')
    # README: metadata table columns |Index|Field|...
    readme = open(os.path.join(common.REPO, 'README.md')).read()
    sec = readme.split('### Oligonucleotide metadata file', 1)[1].split('\n### ', 1)[0]
    cols = re.findall(r'^\|(\d+)\|`([^`]+)`\|', sec, flags=re.M)
    if [int(i) for i, _ in cols] != list(range(1, len(cols) + 1)) or not cols:
        raise FactError('README metadata column table not recognised')
    # VCF INFO tags: declared in the header vs used in the records
    vw = _src('vcf_writer.py')
    declared = re.findall(r"\('(SGE_\w+)', 'String', 1\)", vw)
    used = sorted(set(re.findall(r"vcf_info\['(SGE_\w+)'\]", vw)) | set(re.findall(r"'(SGE_\w+)':", vw)))
    readme_tags = re.findall(r'^\|`(SGE_\w+)`\|', readme, flags=re.M)
    sl = lambda l: '[' + '; '.join(coq_str(x) for x in l) + ']'
    return ('From Coq Require Import String List.\nImport ListNotations.\nLocal Open Scope string_scope.\n'
            'Definition fact_extracted : bool := true.\n'
            f'Definition meta_csv_fields : list string := {sl(fields)}.\n'
            f'Definition readme_fields : list string := {sl([c for _, c in cols])}.\n'
            f'Definition writer_params : list string := {sl(params)}.\n'
            f'Definition write_order : list string := {sl(order)}.\n'
            f'Definition noop_args : list string := {sl(noop_args)}.\n'
            f'Definition vcf_declared_tags : list string := {sl(declared)}.\n'
            f'Definition vcf_used_tags : list string := {sl(used)}.\n'
            f'Definition readme_vcf_tags : list string := {sl(readme_tags)}.\n')
