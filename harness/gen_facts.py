"""Fail-closed extractors: re-read facts from /repo's current source into coq/Generated/*.v.

Each extractor either recognises exactly the construct it expects or raises FactError; the
failure is recorded and the Generated file is written with an unprovable placeholder so the
dependent obligation fails by name (never silently)."""
from __future__ import annotations

import ast
import csv
import os
import re

from . import common

GEN = os.path.join(common.COQ, 'Generated')


class FactError(Exception):
    pass


def _src(rel: str) -> str:
    with open(os.path.join(common.SRC, 'valiant', rel)) as fh:
        return fh.read()


def _write_if_changed(fp: str, text: str) -> None:
    old = None
    if os.path.exists(fp):
        with open(fp) as fh:
            old = fh.read()
    if old != text:
        with open(fp, 'w') as fh:
            fh.write(text)


def coq_str(s: str) -> str:
    return '"' + s.replace('"', '""') + '"'


EXTRACTORS = {}


def extractor(name):
    def deco(f):
        EXTRACTORS[name] = f
        return f
    return deco


def generate() -> dict:
    os.makedirs(GEN, exist_ok=True)
    status = {}
    for name, f in EXTRACTORS.items():
        fp = os.path.join(GEN, name + '.v')
        try:
            text = f()
            status[name] = 'ok'
        except Exception as ex:  # fail closed
            status[name] = f'FAILED: {type(ex).__name__}: {ex}'
            text = ('(* fact not extractable: %s *)\nFrom Coq Require Import String List.\n'
                    'Definition fact_extracted : bool := false.\n') % str(ex).replace('*)', '* )')
        _write_if_changed(fp, '(* GENERATED from /repo by harness/gen_facts.py - do not edit *)\n' + text)
    return status
