"""Run a design in-process while recording the inputs of MetaTable.to_csv (the MetaRow tuples and the
sequences/options of each targeton), and build the Coq expressions that compare the model's row_out with what
the implementation wrote.  The recorder wraps names of valiant.meta_table from the outside (no change to /repo);
if those names disappear the adaptor reports a broken correspondence."""
from __future__ import annotations

import os
import shutil
import tempfile

from . import common, sge
from .runner import coq_bool, coq_dna, coq_list, coq_opt, coq_str, coq_z

MR_FIELDS = ['ref_pos', 'alt_pos', 'end', 'ref', 'alt', 'ref_aa', 'alt_aa', 'vcf_var_id', 'vcf_alias', 'vcf_nt', 'mutator',
             'in_const', 'oligo', 'mutation_type', 'start_exon_index', 'start_codon_index', 'start_ppe_start',
             'end_exon_index', 'end_codon_index', 'end_ppe_start', 'sgrna_ids']


class AdaptorError(Exception):
    pass


def run_recorded(d: dict) -> dict:
    """-> run result + r['targetons'] = [{'name', 'seq', 'alt', 'bg', 'gpo', 'opts', 'rows': [MetaRow dicts]}]."""
    common.use_repo()
    try:
        import valiant.meta_table as mt
        orig_row, orig_to_csv = mt.MetaRow, mt.MetaTable.to_csv
    except Exception as ex:
        raise AdaptorError(f'valiant.meta_table.MetaRow / MetaTable.to_csv not importable: {ex}')
    log = []

    class Rec(orig_row):
        __slots__ = ()

        def __init__(self, *a):
            if log:
                log[-1]['rows'].append(dict(zip(MR_FIELDS, a)))
            super().__init__(*a)

    def to_csv(self, conn, targeton_name):
        def sq(x):
            return {'start': x.start, 's': str(x.s), 'prev': (str(x.prev_nt) if x.prev_nt else None)}
        g = self.gpo
        log.append({'name': targeton_name, 'seq': sq(self.seq), 'alt': sq(self.alt_seq), 'bg': sq(self.bg_seq),
                    'bg_variants': [(v.pos, str(v.ref), str(v.alt)) for v in self.bg_variants],
                    'ppe_mut_types': [x.value for x in self.ppe_mut_types],
                    'gpo': None if g is None else {
                        'range': [g.ref_range.start, g.ref_range.end], 'alt_length': g.alt_length,
                        'pos_offsets': [(p.pos, p.offset) for p in g._pos_offsets], 'del': list(g._ref_del_mask),
                        'shift': list(g._shift_mask), 'alt_offsets': [(p.pos, p.offset) for p in g._alt_offsets],
                        'ins': list(g._alt_ins_mask)},
                    'rc': bool(self.opt.should_rc(self.strand)), 'sge': self.src_type.value == 'ref',
                    'rows': []})
        return orig_to_csv(self, conn, targeton_name)

    mt.MetaRow = Rec
    mt.MetaTable.to_csv = to_csv
    try:
        r = sge.run_design(d)
    finally:
        mt.MetaRow = orig_row
        mt.MetaTable.to_csv = orig_to_csv
    r['targetons'] = log
    return r


# ---------------------------------------------------------------- Coq terms

def coq_pseq(x) -> str:
    return f'(mkPSeq (mkSeq {x["start"]} {coq_dna(x["s"])}) {coq_opt(x["prev"])})'


def coq_pairs(l) -> str:
    return coq_list(f'({coq_z(a)}, {coq_z(b)})' for a, b in l)


def coq_mask(l) -> str:
    return coq_list('true' if x else 'false' for x in l)


def coq_gpo(g) -> str:
    if g is None:
        return 'None'
    return (f'(Some (mkGpo (mkRange {g["range"][0]} {g["range"][1]}) {g["alt_length"]} {coq_pairs(g["pos_offsets"])} '
            f'{coq_mask(g["del"])} {coq_mask(g["shift"])} {coq_pairs(g["alt_offsets"])} {coq_mask(g["ins"])}))')


def coq_ctx(name: str, t: dict, opts: dict) -> str:
    a5, a3 = opts.get('adaptor5') or '', opts.get('adaptor3') or ''
    mn = opts.get('min_length') if opts.get('min_length') is not None else 1
    mx = opts.get('max_length') if opts.get('max_length') is not None else 300
    return (f'Definition {name} := mkCtx {coq_pseq(t["seq"])} {coq_pseq(t["alt"])} {coq_gpo(t["gpo"])} {coq_bool(t["rc"])} '
            f'{coq_dna(a5)} {coq_dna(a3)} {coq_z(mn)} {coq_z(mx)} {coq_bool(t["sge"])}.\n')


def coq_mr(m: dict) -> str:
    oz = lambda x: coq_opt(coq_z(x) if x is not None else None)
    return (f'(mkMR {coq_z(m["ref_pos"])} {coq_z(m["alt_pos"])} {coq_z(m["end"])} {coq_dna(m["ref"])} {coq_dna(m["alt"])} '
            f'{coq_opt(m["vcf_nt"] or None)} {coq_bool(m["mutator"] == "custom")} {coq_dna(m["oligo"])} '
            f'{oz(m["start_exon_index"])} {oz(m["start_ppe_start"])} {oz(m["end_exon_index"])} {oz(m["end_ppe_start"])})')


def coq_rec(v, pam: bool) -> str:
    if v is None:
        return 'None'
    sge_ref = v['info'].get('SGE_REF')
    return f'(Some (mkRec {v["pos"]} {coq_dna(v["ref"])} {coq_dna(v["alt"])} {coq_opt(coq_dna(sge_ref) if (pam and sge_ref) else None)}))'


def pair_rows(t: dict, files: dict, opts: dict):
    """Pair the recorded MetaRows of a targeton with the rows/records the run wrote, in order.
    -> list of (metarow, out_row dict, vcf_ref rec | None, vcf_pam rec | None), or raises AdaptorError."""
    name = t['name']
    inc = sge.parse_meta(files[name + '_meta.csv'])[1] if name + '_meta.csv' in files else []
    exc = sge.parse_meta(files[name + '_meta_excluded.csv'])[1] if name + '_meta_excluded.csv' in files else []
    # the no-op row (if any) comes first in whichever file it went to
    inc = [r for r in inc if r['mut_position'] != '-1']
    exc = [r for r in exc if r['mut_position'] != '-1']
    vref = sge.parse_vcf(files[name + '_ref.vcf'])[1] if name + '_ref.vcf' in files else []
    vpam = sge.parse_vcf(files[name + '_pam.vcf'])[1] if name + '_pam.vcf' in files else []
    a5, a3 = opts.get('adaptor5') or '', opts.get('adaptor3') or ''
    mn = opts.get('min_length') if opts.get('min_length') is not None else 1
    mx = opts.get('max_length') if opts.get('max_length') is not None else 300
    i = e = 0
    out = []
    for m in t['rows']:
        ln = len(a5) + len(m['oligo']) + len(a3)
        if mn <= ln <= mx:
            if i >= len(inc):
                raise AdaptorError(f'{name}: more in-range MetaRows than rows in _meta.csv')
            row = inc[i]
            r1 = vref[i] if t['sge'] and i < len(vref) else None
            r2 = vpam[i] if t['sge'] and i < len(vpam) else None
            i += 1
            row['_included'] = True
        else:
            if e >= len(exc):
                raise AdaptorError(f'{name}: more out-of-range MetaRows than rows in _meta_excluded.csv')
            row, r1, r2 = exc[e], None, None
            e += 1
            row['_included'] = False
        out.append((m, row, r1, r2))
    if i != len(inc) or e != len(exc):
        raise AdaptorError(f'{name}: {len(inc)}+{len(exc)} rows written for {len(t["rows"])} MetaRows')
    return out


def row_expr(ctx_name: str, m: dict, row: dict, r1, r2) -> str:
    """Boolean Coq expression: the model's row_out on this MetaRow equals what the implementation wrote."""
    return (f'row_check ({ctx_name}) {coq_mr(m)} {coq_dna(row["ref"])} {coq_str(row["mave_nt"])} {coq_str(row["mave_nt_ref"])} '
            f'{coq_dna(row["mseq_no_adapt"])} {coq_dna(row["mseq"])} {coq_z(int(row["oligo_length"]))} {coq_bool(row["_included"])} '
            f'{coq_rec(r1, False)} {coq_rec(r2, True)}')


DNA_OK = set('ACGT')


def row_is_dna(row: dict, r1, r2) -> bool:
    """The case files can only carry ACGT strings; anything else in an output is a violation reported by the caller."""
    fields = [row['ref'], row['mseq'], row['mseq_no_adapt']]
    for r in (r1, r2):
        if r is not None:
            fields += [r['ref'], r['alt'], r['info'].get('SGE_REF', '')]
    return all(set(f) <= DNA_OK for f in fields)
