"""C05 - REF<->ALT liftover is an order-preserving partial bijection on the sequences."""
from __future__ import annotations

import json

from .. import common, gen
from ..runner import Ctx, coq_eval, coq_dna, coq_list, coq_str, coq_z, pool_map

IMPORTS = ['Model.Base', 'Model.Pattern', 'Model.Gpo', 'Model.GpoTable']
START = 10
ERR = {'ValueError': -2, 'IndexError': -3, 'RuntimeError': -4, 'AssertionError': -5}


def enc_exc(ex) -> int:
    for k, v in ERR.items():
        for c in type(ex).__mro__:
            if c.__name__ == k:
                return v
    return -9


def _call(f, enc):
    try:
        return enc(f())
    except Exception as ex:
        return enc_exc(ex)


def impl_table(args):
    vs, (a, b) = args
    from valiant.genomic_position_offsets import GenomicPositionOffsets, SearchType
    from valiant.strings.dna_str import DnaStr
    from valiant.uint_range import UIntRange
    from valiant.var_stats import VarStats
    from valiant.variant import Variant
    try:
        g = GenomicPositionOffsets.from_var_stats([VarStats(*v) for v in vs], UIntRange(a, b))
    except Exception as ex:
        return [enc_exc(ex)]
    oz = lambda x: -1 if x is None else x
    ob = lambda x: 1 if x else 0
    t = [g.alt_length]
    ps = range(a - 2, b + 3)
    for nearest in (None, SearchType.BEFORE, SearchType.AFTER):
        for p in ps:
            t.append(_call(lambda: g.ref_to_alt_position(p, nearest=nearest), oz))
    for q in range(a - 1, a + g.alt_length + 1):
        t.append(_call(lambda: g.alt_to_ref_position(q), oz))
    for s in range(a, b + 1):
        for e in range(s, b + 1):
            for shrink in (False, True):
                try:
                    r = g.ref_to_alt_range(UIntRange(s, e), shrink=shrink)
                    t += [-1, -1] if r is None else [r.start, r.end]
                except Exception as ex:
                    t += [enc_exc(ex)] * 2

    def mkv(pos, n):
        return Variant(pos, DnaStr('A' * n), DnaStr('C'))
    for q in range(a, a + g.alt_length):
        for n in (0, 1, 2, 3):
            t.append(_call(lambda: g.alt_var_overlaps_var(mkv(q, n)), ob))
    for p in range(a, b + 1):
        for n in (0, 1, 2, 3):
            t.append(_call(lambda: g.ref_var_overlaps_var(mkv(p, n)), ob))
    return t


# ---------------- independent spec (cells of the ALT sequence)
def cells(a, b, vs):
    out, p = [], a
    for pos, rl, al in vs:
        while p < pos:
            out.append(p)
            p += 1
        if rl == al:
            for _ in range(rl):
                out.append(p)
                p += 1
        elif rl == 0:
            out += [None] * al
        else:
            p += rl
    while p <= b:
        out.append(p)
        p += 1
    return out


def spec_check(ctx: Ctx, vs, a, b, t):
    """Compare the implementation's table with the cell semantics (valid variant sets only)."""
    cs = cells(a, b, vs)
    img = {p: a + i for i, p in enumerate(cs) if p is not None}
    ins_points = {pos for pos, rl, al in vs if rl == 0}
    deleted = {p for pos, rl, al in vs if al == 0 for p in range(pos, pos + rl)}
    case = {'surface': 'api', 'vs': vs, 'range': [a, b]}

    def bad(kind, msg):
        ctx.violation('spec_violation', f'{kind}: {msg} (variants {vs} in [{a},{b}])', dict(case, kind=kind))

    i = 0
    if t[i] != len(cs):
        bad('alt_length', f'{t[i]} != {len(cs)}')
    i += 1
    ps = list(range(a - 2, b + 3))
    kept = sorted(img)
    for nearest in (None, 'B', 'A'):
        for p in ps:
            got = t[i]
            i += 1
            if p < a:
                exp = p
            elif p > b:
                continue      # after the context: not specified by the property
            elif p in img:
                exp = img[p]
            elif nearest is None:
                exp = -1
            elif nearest == 'B':
                c = [x for x in kept if x < p]
                exp = img[c[-1]] if c else -1
            else:
                c = [x for x in kept if x > p]
                exp = img[c[0]] if c else -1
            if got != exp:
                bad('ref_to_alt_position', f'p={p} nearest={nearest}: got {got}, expected {exp}')
    for q in range(a - 1, a + len(cs) + 1):
        got = t[i]
        i += 1
        if a <= q < a + len(cs):
            exp = -1 if cs[q - a] is None else cs[q - a]
            if got != exp:
                bad('alt_to_ref_position', f'q={q}: got {got}, expected {exp}')
    for s in range(a, b + 1):
        for e in range(s, b + 1):
            for shrink in (False, True):
                got = t[i:i + 2]
                i += 2
                sv = [img[p] for p in range(s, e + 1) if p in img]
                if shrink:
                    exp = [min(sv), max(sv)] if sv else [-1, -1]
                    if got != exp:
                        bad('ref_to_alt_range_shrink', f'[{s},{e}]: got {got}, expected {exp}')
                elif s in img and e in img and got != [img[s], img[e]]:
                    bad('ref_to_alt_range', f'[{s},{e}]: got {got}, expected {[img[s], img[e]]}')
    for q in range(a, a + len(cs)):
        for n in (0, 1, 2, 3):
            got = t[i]
            i += 1
            if n == 0:
                continue
            if q + n - 1 >= a + len(cs):
                continue   # hangs over the ALT end: refused (ValueError), not specified
            sub = cs[q - a:q - a + n]
            touch = any(c is None for c in sub)
            if not touch:
                touch = any(sub[k + 1] != sub[k] + 1 for k in range(n - 1)) or any(c in ins_points or c in deleted for c in sub)
            if got != (1 if touch else 0):
                bad('alt_var_overlaps_single_base_on_insertion_point' if n == 1 and got == 0 else 'alt_var_overlaps_var',
                    f'ALT variant at {q} len {n}: got {got}, expected {1 if touch else 0}')
    for p in range(a, b + 1):
        for n in (0, 1, 2, 3):
            got = t[i]
            i += 1
            if n == 0 or p + n - 1 > b:
                continue
            touch = any(x in ins_points or x in deleted for x in range(p, p + n))
            if got != (1 if touch else 0):
                bad('ref_var_overlaps_var', f'REF variant at {p} len {n}: got {got}, expected {1 if touch else 0}')


MATCHERS = {
    'alt_single_base_on_insertion_point': lambda c: c.get('kind') == 'alt_var_overlaps_single_base_on_insertion_point',
}


def valid_sets(n, maxv, maxlen):
    """Every sorted non-overlapping set of SNV/MNV, pure insertions, pure deletions inside [START, START+n-1]."""
    a, b = START, START + n - 1
    out = []

    def rec(p, acc):
        out.append(list(acc))
        if len(acc) == maxv:
            return
        for pos in range(p, b + 1):
            for ln in range(1, maxlen + 1):
                if pos + ln - 1 <= b:
                    rec(pos + ln, acc + [(pos, ln, ln)])
                    rec(pos + ln, acc + [(pos, ln, 0)])
                rec(pos + 1, acc + [(pos, 0, ln)])
    rec(a, [])
    return out


def apply_case(args):
    start, ref, alt_len, vs = args
    from valiant.seq import Seq
    from valiant.seq_converter import apply_variants
    from valiant.strings.dna_str import DnaStr
    from valiant.variant import Variant
    try:
        r = apply_variants(Seq(start, DnaStr(ref)), alt_len, [Variant(p, DnaStr(x), DnaStr(y)) for p, x, y in vs])
        return str(r.s)
    except ValueError:
        return '!V'
    except IndexError:
        return '!I'
    except Exception:
        return '!?'


def splice(start, ref, vs):
    out, p = [], start
    for pos, r, a in vs:
        out.append(ref[p - start:pos - start])
        out.append(a)
        p = pos + len(r)
    out.append(ref[p - start:])
    return ''.join(out)


def coq_vs(vs):
    return coq_list(f'mkVS {p} {rl} {al}' for p, rl, al in vs)


def sweep(ctx: Ctx):
    rng = ctx.rng
    n, maxv, maxlen = (5, 2, 2) if ctx.quick() else (7, 3, 3)
    sets = valid_sets(n, maxv, maxlen)
    budget = ctx.n(2500, 40000)
    if len(sets) > budget:
        sets = rng.sample(sets, budget)
    a, b = START, START + n - 1
    cases = [(vs, (a, b)) for vs in sets]
    # a second, shuffled and partly invalid stream: input order, ties, out-of-range, delins, overlapping
    for _ in range(ctx.n(400, 4000)):
        k = rng.randint(1, 3)
        vs = [(rng.randint(a - 1, b + 1), rng.randint(0, 3), rng.randint(0, 3)) for _ in range(k)]
        vs = [v for v in vs if v[1] + v[2] > 0]
        cases.append((vs, (a, b)))
    tables = pool_map(impl_table, cases, chunksize=64)
    exprs = []
    for (vs, (a_, b_)), t in zip(cases, tables):
        exprs.append(f'table_agrees (gpo_table {coq_vs(vs)} (mkRange {a_} {b_})) ' + coq_list(coq_z(x) for x in t))
    ctx.evaluations += len(cases)
    for (vs, (a_, b_)), t in zip(cases[:len(sets)], tables[:len(sets)]):
        if len(t) == 1:
            ctx.violation('spec_violation', f'valid variant set refused ({t[0]}): {vs}', {'surface': 'api', 'vs': vs, 'range': [a_, b_], 'kind': 'refused'})
            continue
        if any(v[1] != v[2] for v in vs):
            ctx.nontriv(tuple(vs))
        spec_check(ctx, vs, a_, b_, t)
    ctx.count('valid_sets', len(sets))
    ctx.count('arbitrary_sets', len(cases) - len(sets))
    bad, err = coq_eval(IMPORTS, exprs, chunk=250)
    ctx.corr['cases'] += len(exprs)
    if err:
        ctx.violation('correspondence', 'model evaluation failed: ' + err[:300], broken='coqc cases (C05 tables)', no_input=True)
    for i in bad[:50]:
        ctx.corr['disagreements'] += 1
        ctx.violation('correspondence', f'liftover table differs for variants {cases[i][0]} in {cases[i][1]}',
                      {'surface': 'api', 'vs': cases[i][0], 'range': cases[i][1], 'impl_table': tables[i]},
                      broken='correspondence S-api GenomicPositionOffsets lookups')
    ctx.sample({'variants(pos,ref_len,alt_len)': cases[len(sets) // 2][0], 'context': [a, b], 'impl_table_head': tables[len(sets) // 2][:12]})
    # negative control
    ctl = []
    for e in exprs[5:8]:
        head, _, tail = e.rpartition('[')
        ctl.append(head + '[' + tail.replace(';', '; 77;', 1))
    badc, _ = coq_eval(IMPORTS, ctl)
    ctx.controls['run'] += len(ctl)
    ctx.controls['rejected'] += len(badc)
    if len(badc) != len(ctl):
        ctx.violation('control', 'comparator accepted a perturbed table', broken='negative control', no_input=True)


def gen_seq_variants(rng, start, ref):
    """Valid sorted variants with alleles for a reference string."""
    vs, p = [], start
    end = start + len(ref) - 1
    while p <= end and len(vs) < 4:
        p += rng.randint(0, 4)
        if p > end:
            break
        kind = rng.choice(['sub', 'ins', 'del'])
        ln = rng.randint(1, 3)
        if kind == 'ins':
            vs.append((p, '', gen.rand_dna(rng, ln)))
            p += 1
        else:
            if p + ln - 1 > end:
                break
            r = ref[p - start:p - start + ln]
            vs.append((p, r, gen.rand_dna(rng, ln) if kind == 'sub' else ''))
            p += ln
    return vs


def apply_sweep(ctx: Ctx):
    rng = ctx.rng
    cases = []
    for _ in range(ctx.n(600, 8000)):
        start = rng.choice([1, 7, 100])
        ref = gen.rand_dna(rng, rng.randint(1, 14))
        vs = gen_seq_variants(rng, start, ref)
        alt_len = len(ref) + sum(len(a) - len(r) for _, r, a in vs)
        mode = rng.random()
        if mode < 0.1:
            alt_len += rng.choice([-1, 1])
        elif mode < 0.15 and len(vs) > 1:
            rng.shuffle(vs)
        elif mode < 0.2 and vs:
            p, r, a = vs[-1]
            vs[-1] = (p + rng.randint(1, 3), r, a)
        cases.append((start, ref, alt_len, vs, mode >= 0.2 or False))
    common.use_repo()
    res = [apply_case(c[:4]) for c in cases]
    exprs = []
    for (start, ref, alt_len, vs, valid), r in zip(cases, res):
        cv = coq_list(f'mkVar {p} {coq_dna(x)} {coq_dna(y)}' for p, x, y in vs)
        exprs.append(f'dna_agrees (enc_dna (apply_variants {start} {coq_dna(ref)} {coq_z(alt_len)} {cv})) {coq_str(r)}')
        ctx.evaluations += 1
        if valid:
            exp = splice(start, ref, vs)
            if vs:
                ctx.nontriv((ref, tuple(vs)))
            if r != exp:
                ctx.violation('spec_violation', f'apply_variants({ref}@{start}, {vs}) = {r}, expected {exp}',
                              {'surface': 'api', 'kind': 'apply_variants', 'start': start, 'ref': ref, 'alt_length': alt_len, 'variants': vs, 'got': r})
    bad, err = coq_eval(IMPORTS, exprs)
    ctx.corr['cases'] += len(exprs)
    if err:
        ctx.violation('correspondence', 'model evaluation failed: ' + err[:300], broken='coqc cases (C05 apply_variants)', no_input=True)
    for i in bad[:50]:
        ctx.corr['disagreements'] += 1
        ctx.violation('correspondence', f'apply_variants differs: {cases[i][:4]} impl={res[i]}',
                      {'surface': 'api', 'kind': 'apply_variants', 'case': cases[i][:4], 'impl': res[i]},
                      broken='correspondence S-api apply_variants')


def array_case(args):
    """The three array_utils functions the translated kernels take as given, on one array: -> encoded results."""
    from valiant.array_utils import get_next_index, get_prev_index, get_u8_array
    from array import array
    vals, i, v, n = args
    a = array('B', vals)
    enc = lambda x: -1 if x is None else int(x)
    return (_call(lambda: get_prev_index(a, i, v), enc), _call(lambda: get_next_index(a, i, v), enc),
            _call(lambda: list(get_u8_array(n)), lambda l: len(l) if all(x == 0 for x in l) else -8),
            _call(lambda: a.index(v, i), enc))


def array_builtins_stage(ctx: Ctx):
    """S-api tie of Model/PyLoop.v u8_prev_index / u8_next_index / u8_zeros (what Generated/KernelsGpo.v calls where the source calls
    get_prev_index / get_next_index / get_u8_array / array.index): every array over {0, 1, 2} up to length 4, every start from -6 to 6."""
    import itertools
    cases = []
    for ln in range(0, 5):
        for vals in itertools.product((0, 1, 2), repeat=ln):
            if ctx.tier == 'quick' and ln == 4 and ctx.rng.random() < 0.7:
                continue
            for i in range(-6, 7):
                cases.append((list(vals), i, (i + ln) % 2, i))
    res = pool_map(array_case, cases, chunksize=64)
    def enc_coq(term):      # -> Z: the index, -1 for None, the error code
        codes = ' | '.join(f'Err {k} => {coq_z(v)}' for k, v in ERR.items() if k in ('ValueError', 'IndexError'))
        return f'(match {term} with Ok (Some k) => k | Ok None => -1 | {codes} | Err _ => -9 end)%Z'
    exprs = []
    for (vals, i, v, n), (rp, rn, rz, ri) in zip(cases, res):
        l = coq_list(coq_z(x) for x in vals)
        codes = ' | '.join(f'Err {k} => {coq_z(c)}' for k, c in ERR.items() if k in ('ValueError', 'IndexError'))
        exprs.append(f'(Z.eqb {enc_coq(f"u8_prev_index {l} {coq_z(i)} {v}")} {coq_z(rp)}) && (Z.eqb {enc_coq(f"u8_next_index {l} {coq_z(i)} {v}")} {coq_z(rn)}) && '
                     f'(Z.eqb (match u8_zeros {coq_z(n)} with Ok z => if forallb (Z.eqb 0) z then zlen z else -8 | {codes} | Err _ => -9 end)%Z {coq_z(rz)}) && '
                     f'(Z.eqb (match u8_index {l} {v} {coq_z(i)} with Ok k => k | {codes} | Err _ => -9 end)%Z {coq_z(ri)})')
    bad, err = coq_eval(['Model.Base', 'Model.PyLoop'], exprs)
    ctx.corr['cases'] += len(exprs)
    ctx.count('array_builtin_cases', len(exprs))
    if err:
        ctx.violation('correspondence', 'model evaluation failed: ' + err[:300], broken='coqc cases (C05 array builtins)', no_input=True)
    for k in bad[:10]:
        ctx.corr['disagreements'] += 1
        ctx.violation('correspondence', f'array_utils on {cases[k]} gives {res[k]}: differs from the definitions of Model/PyLoop.v',
                      {'surface': 'api', 'kind': 'array_builtins', 'case': list(cases[k]), 'impl': list(res[k])}, broken='correspondence array_utils vs Model/PyLoop.v')


def bg_accept(kind: str, what: str) -> bool:
    return kind.startswith(('background_seq', 'refused', 'ref_range', 'mut_position', 'mave_nt_offset', 'row_columns:ref_start', 'row_columns:ref_end',
                            'row_extra', 'row_missing'))


def run(ctx: Ctx):
    sweep(ctx)
    apply_sweep(ctx)
    # the consumers of the liftover in a run (get_gpo_ctx / get_ctx_seq_bg: the variants reach from_var_stats and apply_variants in the
    # order the database returns them): designs whose background VCF lists its records in any order, against the pre-edited genome
    from . import c06
    c06.background_stage(ctx, ctx.n(50, 500), bg_accept, shuffle_bg=True)
    array_builtins_stage(ctx)
    return {'rule': 'S-api: every (sampled in quick) sorted non-overlapping set of <=3 SNV/MNV/pure insertion/pure deletion of length <=3 in a context of 5-7 bases, '
                    'plus arbitrary (unsorted, tied, out-of-range, delins) sets; for each the full table of lookups (ref->alt with both nearest modes for every '
                    'position incl. outside, alt->ref, every sub-range with and without shrink, both overlap tests for lengths 0-3) from the real '
                    'GenomicPositionOffsets is compared with the Coq model and, for valid sets, with an independent cell-list spec; apply_variants on random '
                    'sequences incl. wrong alt_length, unsorted and out-of-range variants. Non-trivial = a set containing an indel.'}


def replay_known(ctx: Ctx, k: dict) -> bool:
    with open(common.VERIF + '/' + k['replay']) as fh:
        v = json.load(fh)
    c = v['case']
    common.use_repo()
    t = impl_table((c['vs'], tuple(c['range'])))
    sub = Ctx('C05', ctx.tier, ctx.seed, None)
    sub.known = []
    spec_check(sub, [tuple(x) for x in c['vs']], c['range'][0], c['range'][1], t)
    return any(x['case'].get('kind') == c.get('kind') for x in sub.violations)


def replay(ctx: Ctx, path: str) -> int:
    with open(path) as fh:
        v = json.load(fh)
    c = v.get('case', {})
    if c.get('via') == 'background_pair':
        from . import c06
        common.use_repo()
        if c06.replay_background(ctx, c, bg_accept):
            print(f'VIOLATION property=C05 replay={path}')
            return 1
        print('replay: property holds on this input now')
        return 0
    common.use_repo()
    ctx.known = []
    if c.get('kind') == 'apply_variants' and 'variants' in c:
        r = apply_case((c['start'], c['ref'], c['alt_length'], [tuple(x) for x in c['variants']]))
        bad = r != splice(c['start'], c['ref'], [tuple(x) for x in c['variants']])
    elif 'vs' in c:
        t = impl_table(([tuple(x) for x in c['vs']], tuple(c['range'])))
        if len(t) == 1:
            bad = True
        else:
            spec_check(ctx, [tuple(x) for x in c['vs']], c['range'][0], c['range'][1], t)
            bad = bool(ctx.violations)
    else:
        print('replay: obligation-only replay file')
        return 0
    if bad:
        print(f'VIOLATION property=C05 replay={path}')
        return 1
    print('replay: property holds on this input now')
    return 0
