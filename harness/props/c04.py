"""C04 - amino-acid annotation equals translation of the affected codon before and after."""
from __future__ import annotations

import json

from .. import codoncheck as cc, codonspec, common, gen, sge
from ..runner import Ctx, coq_eval, pool_map

NTS = 'ACGT'
ALL_CODONS = [a + b + c for a in NTS for b in NTS for c in NTS]


def annots(rows, labels=cc.ANNOT_LABELS):
    return sorted((l, p, r, a, x, y, t) for l, p, r, a, x, y, t in rows if l in labels)


# ---------------------------------------------------------------- S-api: every codon, offset, base, strand, split

def place_codon(rng, codon: str, strand: str, split: str):
    """A transcript whose (transcript-order) codon number 2 is `codon`, laid out whole / split 1+2 / 2+1 over an
    intron / split 1+1+1 over two introns.  -> (exons[(s,e,f)], seq, genomic positions of the codon in transcript order)."""
    # transcript-order CDS: 3 bases, the codon, 3 bases (+ whatever completes whole codons)
    cds_t = gen.rand_dna(rng, 3) + codon + gen.rand_dna(rng, 3)
    cuts = {'whole': [9], 'split12': [4, 5], 'split21': [5, 4], 'split111': [4, 1, 4], 'distal12': [4, 5]}[split]
    g = cds_t if strand == '+' else common.revcomp(cds_t)           # genomic CDS bases, ascending
    lens = cuts if strand == '+' else list(reversed(cuts))
    pos, seq, exons_g, k = rng.randint(3, 6), '', [], 0
    seq = gen.rand_dna(rng, pos - 1)
    for ln in lens:
        exons_g.append([pos, pos + ln - 1])
        seq += g[k:k + ln]
        k += ln
        gap = rng.randint(1, 5) if split != 'distal12' else rng.randint(6, 12)
        seq += gen.rand_dna(rng, gap)
        pos += ln + gap
    seq += gen.rand_dna(rng, 3)
    order = exons_g if strand == '+' else list(reversed(exons_g))
    f, ex = 0, []
    for s, e in order:
        ex.append((s, e, f))
        f = gen.next_frame(f, e - s + 1)
    fr = codonspec.Frame(sorted(ex), strand)
    cp = fr.walk[3:6]
    return sorted(ex), seq, cp


def sweep(ctx: Ctx):
    rng = ctx.rng
    cases = []
    splits = ['whole', 'split12', 'split21', 'split111', 'distal12']
    codons = ALL_CODONS if not ctx.quick() else ALL_CODONS
    for codon in codons:
        for strand in '+-':
            for split in (splits if not ctx.quick() else rng.sample(splits, 2)):
                exons, seq, cp = place_codon(rng, codon, strand, split)
                for p in cp:
                    cases.append((strand, exons, seq, p, p, cc.exon_number_of(exons, strand, p), ['snv'], None))
    common.use_repo()
    results = [cc.api_region(c) for c in cases]
    exprs = []
    deftbl = [(r[0], r[1], cc.rank_of(r[3])) for r in gen.load_default_table()]
    for c, res in zip(cases, results):
        strand, exons, seq, lo, hi, n, muts, trows = c
        ctx.evaluations += 1
        ctx.count('api_snv_positions')
        exprs.append(cc.region_expr(cc.coq_table(deftbl, strand == '-'), cc.coq_transcript(exons, strand), 1, seq, n, lo, hi, muts, res))
        exp = cc.oracle_rows(*c)
        if res[0] != 'ok':
            ctx.violation('spec_violation', f'snv annotation at {lo} ({strand}, exons {exons}) raised {res[1]}', {'surface': 'api', 'case': list(c), 'got': res})
            continue
        e, g = annots(exp), annots(res[1])
        ctx.nontriv(('api', strand, tuple(exons), lo))
        if e != g:
            bad = [x for x in g if x not in e][:2]
            want = [x for x in e if x not in g][:2]
            ctx.violation('spec_violation', f'annotation of snv at {lo} strand {strand} exons {exons}: got {bad} expected {want}',
                          {'surface': 'api', 'case': list(c), 'expected': e, 'got': g})
    bad, err = coq_eval(cc.IMPORTS, exprs, chunk=200)
    ctx.corr['cases'] += len(exprs)
    if err:
        ctx.violation('correspondence', 'model evaluation failed: ' + err[:300], broken='coqc cases (C04 sweep)', no_input=True)
    for i in bad:
        ctx.corr['disagreements'] += 1
        ctx.violation('correspondence', f'impl != model (annotated snv rows) for {cases[i][0]} {cases[i][1]} position {cases[i][3]}',
                      {'surface': 'api', 'case': list(cases[i]), 'impl': results[i]}, broken='correspondence S-api AnnotVariant.annotate via get_cds_seq')
    ctx.sample({'api_case': [cases[0][0], cases[0][1], cases[0][3]], 'impl': results[0][1][:3] if results[0][0] == 'ok' else results[0]})
    # negative control: a changed amino acid in the implementation's answer must be rejected
    ctl = [e.replace(' "mis"', ' "syn"', 1) for e in exprs if ' "mis"' in e][:3]
    if ctl:
        badc, _ = coq_eval(cc.IMPORTS, ctl)
        ctx.controls['run'] += len(ctl)
        ctx.controls['rejected'] += len(badc)
        if len(badc) != len(ctl):
            ctx.violation('control', 'comparator accepted a perturbed case', broken='negative control', no_input=True)


# ---------------------------------------------------------------- file surface

def design_case(d):
    return d, sge.run_design(d)


def check_rows(ctx: Ctx, d, t, name, fr, tb, G, cds_regions, rows):
    """rows: all metadata rows of one targeton; cds_regions: [(lo, hi)] coding regions of that targeton."""
    for x in rows:
        if x['mut_position'] == '-1':
            continue
        m, p, ref, new = x['mutator'], int(x['mut_position']), x['ref'], x['new']
        got = (x['ref_aa'], x['alt_aa'], x['mut_type'])
        ctx.evaluations += 1
        in_cds = any(lo <= p <= hi for lo, hi in cds_regions)
        if m in cc.ANNOT_LABELS and in_cds:
            exp = codonspec.annotate_expected(fr, tb, G, p, ref, new)
            if exp is None:
                ctx.count('cut_codon_skipped')
                continue
            ctx.count('annot:' + m)
            ctx.nontriv((common.sha(d), name, m, p, new))
            if got != exp:
                ctx.violation('spec_violation', f'{name} {m} {p} {ref}>{new}: ref_aa/alt_aa/mut_type {got}, expected {exp}',
                              {'surface': 'file', 'design': d, 'targeton': t, 'row': {k: x[k] for k in ('mutator', 'mut_position', 'ref', 'new', 'ref_aa', 'alt_aa', 'mut_type')},
                               'expected': exp})
        else:
            ctx.count('unannotated:' + ('custom' if m == 'custom' else 'inframe' if m == 'inframe' else 'del' if not new else 'noncoding'))
            if got != ('', '', ''):
                ctx.violation('spec_violation', f'{name} {m} {p} {ref}>{new} carries an amino-acid annotation {got} (non-coding / deletion / custom row)',
                              {'surface': 'file', 'design': d, 'targeton': t, 'row': {k: x[k] for k in ('mutator', 'mut_position', 'ref', 'new', 'ref_aa', 'alt_aa', 'mut_type')}})


def check_design(ctx: Ctx, d: dict, r: dict):
    if r['exit'] != 0:
        ctx.count('runs_failed')
        ctx.violation('spec_violation', f"valid design refused: exit {r['exit']} {r['exc']} {r['exc_msg'][:80]}",
                      {'surface': 'file', 'design': d, 'exc': r['exc'], 'exc_msg': r['exc_msg']})
        return
    tb = codonspec.Table(d.get('codon_table'))
    if d['mode'] == 'sge':
        exons = gen.exons_of(d)
        fr = codonspec.Frame(exons, d['strand']) if exons else None
        for t in d['targetons']:
            name = sge.sge_targeton_name(d['contig'], d['strand'], t)
            rows = sge.all_meta_rows(r['files'], name)
            pam_seq = next((x['pam_seq'] or x['ref_seq'] for x in rows), None)
            G = codonspec.genome_fn(d, t, pam_seq)
            cds = [reg for reg in cc.sge_regions(t) if reg and gen.region_class(exons, *reg) == 'cds']
            check_rows(ctx, d, t, name, fr, tb, G, cds, rows)
    else:
        annot = {a[0]: a for a in d.get('annot') or [] if a[3] != ''}
        keyed = {}
        for t in d['targetons']:
            keyed.setdefault((t['seq_id'], t['ref_start'], t['ref_end']), []).append(t)
        for n in sge.targeton_names(r['files']):
            rows = sge.all_meta_rows(r['files'], n)
            if not rows:
                continue
            sid = rows[0]['oligo_name'].split('.')[0] if False else None
            # cDNA file names carry an md5 of the row: identify the targeton by seq id prefix and reported range
            cands = [t for (s, a, b), ts in keyed.items() for t in ts
                     if n.startswith(s + '_') and a == int(rows[0]['ref_start']) and b == int(rows[0]['ref_end'])]
            if len(cands) != 1:
                ctx.count('cdna_ambiguous_targeton_skipped')
                continue
            t = cands[0]
            seq = d['seqs'][t['seq_id']]
            G = lambda p, seq=seq: seq[p - 1]
            a = annot.get(t['seq_id'])
            if a and a[3] <= t['r2_start'] and t['r2_end'] <= a[4]:
                fr = codonspec.Frame([(a[3], a[4], 0)], '+')
                cds = [(t['r2_start'], t['r2_end'])]
            else:
                fr, cds = None, []
            check_rows(ctx, d, t, n, fr, tb, G, cds, rows)


def leak_edge(rng, d: dict) -> bool:
    """Make a coding region-2 with an snv mutator start or end at the targeton edge in the middle of a codon, and give a guide
    of that targeton a PAM edit on the base(s) of the same codon just outside the targeton.  The edit is not part of this
    targeton's template (the tool says so in a warning), so the codon is completed from the unedited genome."""
    exons = gen.exons_of(d)
    if not exons:
        return False
    ref = d['ref'].upper()
    ts = list(d['targetons'])
    rng.shuffle(ts)
    for t in ts:
        a, b = t['r2_start'], t['r2_end']
        if gen.region_class(exons, a, b) != 'cds' or 'snv' not in cc.parse_group(t['action'][1]):
            continue
        for side in rng.sample(['start', 'end'], 2):
            cands = []
            for e in (range(a, min(a + 3, b + 1)) if side == 'start' else range(b, max(b - 3, a - 1), -1)):
                tc = gen.true_codon_positions(d, e)
                if not tc or None in tc:
                    continue
                out = [q for q in tc if (q < e if side == 'start' else q > e)]
                if out and all(2 <= q <= len(ref) - 1 for q in out):
                    cands.append((e, out, tc))
            if not cands:
                continue
            e, out, tc = rng.choice(cands)
            new = dict(t)
            if side == 'start':
                new.update(ref_start=e, r2_start=e, ext=[0, t['ext'][1]], action=['', t['action'][1], t['action'][2]])
            else:
                new.update(ref_end=e, r2_end=e, ext=[t['ext'][0], 0], action=[t['action'][0], t['action'][1], ''])
            if new['ref_end'] - new['ref_start'] < 3 or any(x is not t and (x['ref_start'], x['ref_end']) == (new['ref_start'], new['ref_end']) for x in d['targetons']):
                continue
            others = [x for x in d['targetons'] if x is not t]
            q = rng.choice(out)
            if any(x['ref_start'] <= q <= x['ref_end'] for x in others):
                continue
            # one edit in that codon, and none left outside the new range that used to be inside
            pam = [v for v in d.get('pam') or [] if v['pos'] not in tc]
            sg = (t['sgrna'] or ['sg1'])[0]
            pam.append({'pos': q, 'ref': ref[q - 1], 'alt': rng.choice([c for c in NTS if c != ref[q - 1]]), 'sgrna': sg})
            t.clear()
            t.update(new)
            t['sgrna'] = sorted(set(t['sgrna']) | {sg})
            d['pam'] = pam
            d.pop('vcfs', None)
            return True
    return False


def files(ctx: Ctx):
    n = ctx.n(100, 1200)
    focus = {'p_bg': 0.0, 'p_custom': 0.4, 'p_pam': 0.8, 'p_table': 0.3, 'p_gtf': 1.0, 'n_pam': [1, 2, 3],
             'cds_mut': ['snv', 'snv', 'snvre', 'ala', 'stop', 'aa', 'inframe'], 'non_cds_mut': ['snv', '1del', '2del0'], 'allow_short_cds': True}
    designs = []
    for i in range(n):
        f = dict(focus, n_exons=ctx.rng.choice([1, 2, 3, 3, 4]), exon_lens=ctx.rng.choice([[4, 5, 6, 7, 9, 12, 17, 21, 30, 31, 32, 45], [2, 3, 4, 5, 7, 8]]))
        if i % 4 == 0:
            f.update(p_bg=1.0, bg_kinds=['snv'], p_mask=0.0)
        d = gen.gen_sge(ctx.rng, f)
        if i % 4 in (1, 3) and leak_edge(ctx.rng, d):
            ctx.count('designs_with_guide_edit_just_outside_the_targeton')
        designs.append(d)
    for _ in range(n // 2):
        d = gen.gen_cdna(ctx.rng, {'p_table': 0.2})
        annot = {a[0]: a for a in d.get('annot') or [] if a[3] != ''}
        for t in d['targetons']:
            a = annot.get(t['seq_id'])
            if a and ctx.rng.random() < 0.7:
                # region 2 at the targeton edge, starting or ending mid-codon: the codon is completed from outside the targeton
                lo = ctx.rng.randint(max(2, a[3]), max(2, a[3], a[4] - 12))
                hi = min(a[4], lo + ctx.rng.randint(1, 14))
                t['r2_start'], t['r2_end'] = lo, hi
                t['ref_start'] = lo if ctx.rng.random() < 0.6 else max(1, lo - ctx.rng.randint(1, 9))
                t['ref_end'] = hi if ctx.rng.random() < 0.6 else min(len(d['seqs'][t['seq_id']]), hi + ctx.rng.randint(1, 9))
                t['action'] = sorted(set(ctx.rng.sample(['snv', 'snvre', 'ala', 'stop', 'aa', 'inframe', '1del'], 3)))
        designs.append(d)
    results = pool_map(design_case, designs)
    for d, r in results:
        ctx.count('designs_' + d['mode'])
        check_design(ctx, d, r)
    if results:
        d0 = results[0][0]
        ctx.sample({'design_targetons': d0['targetons'], 'strand': d0.get('strand'), 'cds': (d0.get('gtf') or {}).get('cds')})


def run(ctx: Ctx):
    sweep(ctx)
    files(ctx)
    # a frame-shifting background indel in an exon upstream of the targetons moves the reading frame: the annotations must be those of the same
    # design on the genome that already carries it, annotated with the frames that follow from the new exon lengths (C06's pair)
    from . import c06
    c06.upstream_frameshift_stage(ctx, lambda kind, what: kind.startswith(('row_columns', 'row_missing', 'row_extra', 'refused')))
    c06.compensating_stage(ctx, lambda kind, what: kind.startswith(('row_columns', 'row_missing', 'row_extra', 'refused')))
    return {'rule': 'S-api: each of the 64 codons placed whole, split 1+2, 2+1, 1+1+1 and across a long intron, on both strands; an SNV mutator on '
                    'each of its three bases through the real get_cds_seq + annotate; the three rows per base compared with the Coq model '
                    '(vm_compute) and with the transcript-walk oracle. S-file: random SGE designs (PAM edits in codons, background substitutions, '
                    'custom tables, short exons) and cDNA designs with region 2 at the targeton edge: ref_aa/alt_aa/mut_type of every '
                    'snv/snvre/ala/stop/aa row in a coding region = oracle; all other rows carry no annotation. Non-trivial = an annotated row.'}


def replay(ctx: Ctx, path: str) -> int:
    with open(path) as fh:
        v = json.load(fh)
    case = v.get('case', {})
    common.use_repo()
    bad = False
    if case.get('surface') == 'api':
        c = case['case']
        c[1] = [tuple(x) for x in c[1]]
        res = cc.api_region(tuple(c))
        exp = cc.oracle_rows(*c)
        bad = res[0] != 'ok' or annots(exp) != annots(res[1])
    elif 'design' in case:
        d, r = design_case(case['design'])
        check_design(ctx, d, r)
        bad = bool(ctx.violations)
    else:
        print('replay: nothing to run (obligation-only replay file)')
        return 0
    if bad:
        print(f'VIOLATION property=C04 replay={path}')
        return 1
    print('replay: property holds on this input now')
    return 0
