"""C17 - codon choice and translation follow the codon table in use."""
from __future__ import annotations

import json
import os
import tempfile

from .. import common, gen, sge
from ..runner import Ctx, coq_bool, coq_eval, coq_dna, coq_list, coq_str, coq_z, pool_map

IMPORTS = ['Model.Base', 'Model.Pattern', 'Model.CodonTable', 'Model.CodonTableGlue']
NTS = 'ACGT'
ALL_CODONS = [a + b + c for a in NTS for b in NTS for c in NTS]
AAS = sorted(set(gen.STD_CODE.values())) + ['X']


def rank_of(s: str) -> int:
    return 1 if s[4:] in ('U', 'T', 'UT') else int(s[4:])


def impl_lookups(args):
    rows, rc = args
    from valiant.codon_table import CodonTable
    from valiant.codon_table_row import CodonTableRow
    from valiant.strings.codon import Codon
    from valiant.strings.translation_symbol import TranslationSymbol
    t = CodonTable.from_list([CodonTableRow(Codon(c), TranslationSymbol(a), k) for c, a, k in rows], rc=rc)

    def call(f, show):
        try:
            return show(f())
        except IndexError:
            return '!I'
        except KeyError:
            return '!K'
        except Exception as ex:
            return '!K' if type(ex).__name__ == 'CodonNotFound' else '!?'
    sd = lambda l: ';'.join(l)
    out = [call(lambda: t.translate(Codon(c)), str) for c in ALL_CODONS]
    out += [call(lambda: t.get_top_codon(TranslationSymbol(a)), str) for a in AAS]
    out += [call(lambda: t.get_second_best_codon(TranslationSymbol(a)), lambda x: '-' if x is None else str(x)) for a in AAS]
    out += [call(lambda: t.get_synonymous_codons(Codon(c)), sd) for c in ALL_CODONS]
    out += [call(lambda: t.get_top_codons(), sd)]
    out += [call(lambda: t.get_top_codons({TranslationSymbol('STOP'), TranslationSymbol(a)}), sd) for a in AAS]
    return out


def spec_lookups(rows, rc):
    """Independent oracle for tables with distinct codons and distinct ranks within an amino acid."""
    rv = common.revcomp
    rows = [(rv(c) if rc else c, a, k) for c, a, k in rows]
    tr = {c: a for c, a, k in rows}
    by = {}
    for c, a, k in rows:
        by.setdefault(a, []).append((k, c))
    ranked = {a: [c for k, c in sorted(v)] for a, v in by.items()}
    out = [tr.get(c, '!K') for c in ALL_CODONS]
    out += [ranked[a][0] if a in ranked else '!K' for a in AAS]
    out += [(ranked[a][1] if len(ranked[a]) > 1 else '-') if a in ranked else '!K' for a in AAS]
    out += [';'.join(x for x in ranked[tr[c]] if x != c) if c in tr else '!K' for c in ALL_CODONS]
    out += [';'.join(sorted(v[0] for v in ranked.values()))]
    out += [';'.join(sorted(v[0] for k, v in ranked.items() if k not in ('STOP', a))) for a in AAS]
    return out


def coq_rows(rows) -> str:
    return coq_list(f'mkRow {coq_dna(c)} {coq_str(a)} {coq_z(k)}' for c, a, k in rows)


def random_table(rng, mode: str):
    rows = gen.gen_codon_table(rng)
    rows = [(r[0], r[1], rank_of(r[3])) for r in rows]
    if mode == 'ties':          # equal ranks inside an amino acid: order of rows decides (outside the spec)
        rows = [(c, a, rng.choice([1, 2])) for c, a, k in rows]
    elif mode == 'partial':     # some codons missing
        rows = [r for r in rows if rng.random() < 0.8]
    elif mode == 'dup':         # a codon listed twice with different amino acids
        c, a, k = rng.choice(rows)
        rows.insert(rng.randrange(len(rows)), (c, 'X', 9))
    elif mode == 'bycodon':     # sorted by codon: rows of one amino acid are not adjacent
        rows.sort()
    return rows


def tables(ctx: Ctx):
    rng = ctx.rng
    cases = []
    default = [(r[0], r[1], rank_of(r[3])) for r in gen.load_default_table()]
    for rc in (False, True):
        cases.append((default, rc, 'default'))
    for i in range(ctx.n(60, 600)):
        mode = rng.choice(['perm', 'perm', 'perm', 'bycodon', 'ties', 'partial', 'dup'])
        cases.append((random_table(rng, mode), rng.random() < 0.5, mode))
    res = pool_map(impl_lookups, [(c[0], c[1]) for c in cases], chunksize=8)
    exprs = []
    aas = coq_list(coq_str(a) for a in AAS)
    for (rows, rc, mode), out in zip(cases, res):
        exprs.append(f'strs_eqb (ct_lookups {coq_rows(rows)} {coq_bool(rc)} {aas}) ' + coq_list(coq_str(x) for x in out))
        ctx.evaluations += 1
        ctx.count('table_' + mode)
        if mode in ('perm', 'bycodon', 'default', 'partial'):
            ctx.nontriv((mode, common.sha(rows), rc))
            exp = spec_lookups(rows, rc)
            if out != exp:
                k = next(i for i in range(len(exp)) if out[i] != exp[i])
                ctx.violation('spec_violation', f'codon table lookup #{k} = {out[k]!r}, expected {exp[k]!r} (table mode {mode}, rc={rc})',
                              {'surface': 'api', 'rows': rows, 'rc': rc, 'index': k, 'got': out[k], 'expected': exp[k]})
            # row order must not matter
            sh = list(rows)
            rng.shuffle(sh)
            common.use_repo()
            out2 = impl_lookups((sh, rc))
            ctx.evaluations += 1
            if out2 != out:
                k = next(i for i in range(len(out)) if out[i] != out2[i])
                ctx.violation('spec_violation', f'codon table lookups depend on the row order: #{k} {out[k]!r} vs {out2[k]!r}',
                              {'surface': 'api', 'rows': rows, 'shuffled': sh, 'rc': rc, 'index': k})
        if mode == 'default':
            for c, got in zip(ALL_CODONS, out[:64]):
                exp = gen.STD_CODE[common.revcomp(c) if rc else c]
                if got != exp:
                    ctx.violation('spec_violation', f'default table translates {c} (rc={rc}) to {got}, standard code {exp}',
                                  {'surface': 'api', 'rows': rows, 'rc': rc, 'codon': c})
    bad, err = coq_eval(IMPORTS, exprs, chunk=12)
    ctx.corr['cases'] += len(exprs)
    if err:
        ctx.violation('correspondence', 'model evaluation failed: ' + err[:300], broken='coqc cases (C17 tables)', no_input=True)
    for i in bad[:20]:
        ctx.corr['disagreements'] += 1
        ctx.violation('correspondence', f'codon table lookups differ from the model (mode {cases[i][2]}, rc={cases[i][1]})',
                      {'surface': 'api', 'rows': cases[i][0], 'rc': cases[i][1], 'impl': res[i][:70]}, broken='correspondence S-api CodonTable lookups')
    ctx.sample({'table_mode': cases[3][2], 'rc': cases[3][1], 'first_rows': cases[3][0][:4], 'impl_lookups_head': res[3][:6]})
    ctl = [exprs[0].replace('"M"', '"K"', 1)]
    badc, _ = coq_eval(IMPORTS, ctl)
    ctx.controls['run'] += 1
    ctx.controls['rejected'] += len(badc)
    if len(badc) != 1:
        ctx.violation('control', 'comparator accepted a perturbed lookup table', broken='negative control', no_input=True)


# ---- loader
FIELD_POOL = {
    'codon': ['ACG', 'TTT', 'AC', 'ACGT', 'ACN', 'acg', '', 'A G', 'ACG '],
    'aa': ['A', 'STOP', 'Stop', '', 'AL', '*', 'stop', 'X'],
    'freq': ['0.5', '0', '1', '1.0', '1.5', '-0.1', 'x', '', '1e-2', ' 0.3', 'nan', 'inf', '0.5.1'],
    'rank': ['RANK1', 'RANK2', 'RANKT', 'RANKU', 'RANKUT', 'RANKTU', 'RANK', 'rank1', 'RANKX', 'RANK10', 'RANK0', 'RANK1.0', 'RAN1', 'RANK-1', 'RANK 2', '1', 'RANKTT'],
}


def freq_ok(s: str) -> bool:
    try:
        f = float(s)
    except ValueError:
        return False
    return 0.0 <= f <= 1.0


def loader_case(fields):
    from valiant.codon_table_loader import load_codon_table_rows
    d = tempfile.mkdtemp(prefix='vvt_', dir=common.scratch_root())
    fp = os.path.join(d, 't.csv')
    try:
        with open(fp, 'w') as fh:
            fh.write(','.join(fields) + '\n')
        try:
            rows = load_codon_table_rows(fp)
            if len(rows) != 1:
                return ('other', len(rows))
            r = rows[0]
            return ('ok', (str(r.codon), str(r.aa), r.rank))
        except ValueError:
            return ('err', 'ValueError')
        except Exception as ex:
            return ('err', 'OtherErr:' + type(ex).__name__)
    finally:
        import shutil
        shutil.rmtree(d, ignore_errors=True)


def loader_table_case(args):
    """(lines of a table file) -> ('ok', number of rows) | ('err', ...): every line of the file is a row; none may be skipped or end the reading."""
    lines = args
    from valiant.codon_table_loader import load_codon_table_rows
    d = tempfile.mkdtemp(prefix='vvt_', dir=common.scratch_root())
    fp = os.path.join(d, 't.csv')
    try:
        with open(fp, 'w') as fh:
            fh.write(''.join(x + '\n' for x in lines))
        try:
            return ('ok', [(str(r.codon), str(r.aa), r.rank) for r in load_codon_table_rows(fp)])
        except ValueError:
            return ('err', 'ValueError')
        except Exception as ex:
            return ('err', 'OtherErr:' + type(ex).__name__)
    finally:
        import shutil
        shutil.rmtree(d, ignore_errors=True)


def loader_tables(ctx: Ctx):
    """Whole files: n valid rows, with or without one defective line (empty, short, bad rank) at any position, the last included."""
    rng = ctx.rng
    base = [','.join(map(str, r)) for r in gen.load_default_table()]
    common.use_repo()
    TABLE_CASES = []
    for _ in range(ctx.n(60, 600)):
        n = rng.choice([1, 2, 5, 20, 64])
        lines = rng.sample(base, n)
        kind = rng.choice(['valid', 'empty_line', 'empty_line', 'short_row', 'bad_rank'])
        k = rng.choice([0, n // 2, max(0, n - 1), n])
        if kind == 'empty_line':
            lines.insert(k, '')
        elif kind == 'short_row':
            lines.insert(k, 'ACG,T,0.5')
        elif kind == 'bad_rank':
            lines.insert(k, 'ACG,T,0.5,RANKQ')
        r = loader_table_case(lines)
        TABLE_CASES.append((list(lines), r))
        ctx.evaluations += 1
        ctx.count('loader_table:' + kind)
        if kind != 'valid':
            ctx.nontriv(('table', kind, n, k))
        if kind == 'valid':
            want = [tuple(x.split(',')[:2]) for x in lines]
            if r[0] != 'ok' or [(c, a) for c, a, _ in r[1]] != want:
                ctx.violation('spec_violation', f'a table of {n} valid rows is not loaded row by row: {str(r)[:120]}', {'surface': 'loader_table', 'lines': lines, 'impl': list(r)})
        elif r[0] == 'ok':
            ctx.violation('spec_violation', f'a table with a defective line ({kind} at line {k + 1} of {n + 1}) is accepted with {len(r[1])} rows',
                          {'surface': 'loader_table', 'lines': lines, 'impl': ['ok', len(r[1])]})
    # the same files through the model of load_codon_table_rows (the frequency column is judged by the real float(), as for single rows)
    exprs = []
    for lines, r in TABLE_CASES:
        rows = []
        for x in lines:
            f = x.split(',') if x != '' else []
            rows.append(f'({coq_list(coq_str(y) for y in f)}, {coq_bool(freq_ok(f[2]) if len(f) >= 3 else False)})')
        impl = 'None' if r[0] != 'ok' else '(Some ' + coq_list(f'mkRow {coq_dna(c)} {coq_str(a)} {coq_z(k)}' for c, a, k in r[1]) + ')'
        exprs.append(f'load_agrees (load_table {coq_list(rows)}) {impl}')
    bad, err = coq_eval(IMPORTS, exprs, chunk=20)
    ctx.corr['cases'] += len(exprs)
    if err:
        ctx.violation('correspondence', 'model evaluation failed: ' + err[:300], broken='coqc cases (C17 tables)', no_input=True)
    for i in bad[:10]:
        ctx.corr['disagreements'] += 1
        ctx.violation('correspondence', f'load_codon_table_rows differs from the model on a file of {len(TABLE_CASES[i][0])} lines',
                      {'surface': 'loader_table', 'lines': TABLE_CASES[i][0], 'impl': [TABLE_CASES[i][1][0]]}, broken='correspondence S-api load_codon_table_rows (whole files)')


def valid_row_spec(fields) -> bool:
    """README / property: 4 columns, codon = 3 letters of ACGT, amino acid one character or STOP,
    frequency a number in [0,1], rank RANK followed by U/T/UT or an integer."""
    if len(fields) != 4:
        return False
    c, a, f, r = fields
    import re
    return bool(re.fullmatch('[ACGT]{3}', c)) and (len(a) == 1 or a == 'STOP') and freq_ok(f) and \
        bool(re.fullmatch(r'RANK(U|T|UT|\d+)', r))


def loader(ctx: Ctx):
    rng = ctx.rng
    cases = []
    for _ in range(ctx.n(300, 3000)):
        fields = [rng.choice(FIELD_POOL[k]) if rng.random() < 0.35 else FIELD_POOL[k][0] for k in ('codon', 'aa', 'freq', 'rank')]
        m = rng.random()
        if m < 0.06:
            fields = fields[:3]
        elif m < 0.12:
            fields = fields + ['x']
        cases.append(fields)
    common.use_repo()
    res = [loader_case(f) for f in cases]
    exprs = []
    for f, r in zip(cases, res):
        ctx.evaluations += 1
        ok = freq_ok(f[2]) if len(f) >= 3 else False
        impl = (f'(Ok (mkRow {coq_dna(r[1][0])} {coq_str(r[1][1])} {coq_z(r[1][2])}))' if r[0] == 'ok'
                else '(Err ValueError)' if r == ('err', 'ValueError') else '(Err OtherErr)')
        exprs.append(f'row_agrees {coq_list(coq_str(x) for x in f)} {coq_bool(ok)} {impl}')
        v = valid_row_spec(f)
        if not v:
            ctx.nontriv(tuple(f))
        if v != (r[0] == 'ok') and not any(ch in f[-1] for ch in ' +-_'):
            ctx.violation('spec_violation', f'codon table row {f} {"rejected" if v else "accepted"} by the loader ({r})',
                          {'surface': 'loader', 'fields': f, 'impl': r})
    bad, err = coq_eval(IMPORTS, exprs)
    ctx.corr['cases'] += len(exprs)
    if err:
        ctx.violation('correspondence', 'model evaluation failed: ' + err[:300], broken='coqc cases (C17 loader)', no_input=True)
    for i in bad[:20]:
        ctx.corr['disagreements'] += 1
        ctx.violation('correspondence', f'loader decision differs from the model for row {cases[i]}: impl {res[i]}',
                      {'surface': 'loader', 'fields': cases[i], 'impl': res[i]}, broken='correspondence S-api load_codon_table_rows')


# ---- file surface: a custom table given in two row orders, and malformed tables
def run_pair(args):
    d, d2 = args
    return d, sge.run_design(d), sge.run_design(d2)


def files(ctx: Ctx):
    rng = ctx.rng
    jobs = []
    for i in range(ctx.n(24, 150)):
        d = gen.gen_sge(rng, {'p_bg': 0.0, 'p_table': 1.0, 'allow_junction_pam': False, 'cds_mut': ['ala', 'stop', 'aa', 'snvre'], 'p_gtf': 1.0})
        d2 = json.loads(json.dumps(d))
        if i % 4 == 3:
            # malformed table: must be refused
            k = rng.randrange(len(d2['codon_table']))
            if rng.random() < 0.35:
                d2['codon_table'].insert(k, [])      # an empty line inside the table (the rows after it must not be silently ignored)
            else:
                d2['codon_table'][k] = rng.choice([['ACG', 'T', '0.5'], ['AC', 'T', '0.5', 'RANK1'], ['ACG', 'T', '2', 'RANK1'], ['ACG', 'T', '0.5', 'RANKQ'], ['ACG', 'TT', '0.5', 'RANK1']])
            d2['_malformed'] = True
        else:
            rng.shuffle(d2['codon_table'])
        jobs.append((d, d2))
    for (d, d2), (dd, r1, r2) in zip(jobs, pool_map(run_pair, jobs, chunksize=2)):
        ctx.evaluations += 1
        if d2.get('_malformed'):
            ctx.count('file_malformed')
            if r2['exit'] == 0 or any(n.endswith('_meta.csv') for n in r2['files']):
                ctx.violation('spec_violation', 'malformed codon table accepted', {'surface': 'file', 'design': d2})
            continue
        ctx.count('file_shuffled')
        if r1['exit'] != 0:
            ctx.violation('spec_violation', f"valid design with a custom table refused: {r1['exc']} {r1['exc_msg'][:80]}", {'surface': 'file', 'design': d})
            continue
        f1 = {k: v for k, v in r1['files'].items() if k != 'config.json'}
        f2 = {k: v for k, v in r2['files'].items() if k != 'config.json'}
        if any('ala' in a or 'aa' in a or 'stop' in a or 'snvre' in a for t in d['targetons'] for a in t['action']):
            ctx.nontriv(common.sha(d))
        if f1 != f2:
            diff = [k for k in set(f1) | set(f2) if f1.get(k) != f2.get(k)]
            ctx.violation('spec_violation', f'outputs depend on the row order of the codon table file: {diff[:3]}',
                          {'surface': 'file', 'design': d, 'shuffled_table': d2['codon_table']})


def mutators(ctx: Ctx):
    """The codon chosen by ala, stop, aa and snvre for every one of the 64 reference codons, both strands, default and random tables:
    real get_cds_seq + MutatorCollection.get_variants on exons of eight codons each, against the codon oracle and the Coq model."""
    from . import c03
    from .. import codoncheck as cc
    rng = ctx.rng
    codons = [a + b + c for a in 'ACGT' for b in 'ACGT' for c in 'ACGT']
    cases = []
    default = None
    for k in range(ctx.n(3, 24)):
        trows = default if k == 0 else [(r[0], r[1], rank_of(r[3])) for r in gen.gen_codon_table(rng)]
        for strand in '+-':
            order = codons[:]
            rng.shuffle(order)
            for j in range(0, 64, 8):       # eight codons per exon keeps the model's quadratic de-duplication cheap
                body = ''.join(order[j:j + 8])
                if strand == '-':
                    body = common.revcomp(body)
                seq = 'GAT' + body + 'TCA'
                exons = [(4, 27, 0)]
                cases.append((strand, exons, seq, 4, 27, cc.exon_number_of(exons, strand, 4), ['ala', 'stop', 'aa', 'snvre'], trows))
    ctx.count('mutator_sweeps', len(cases))
    c03.api_cases(ctx, cases, what='C17 codon choice of the mutators', control=False, chunk=3)


def both_strands_case(d):
    from . import c14
    from .. import merge
    m = c14.mirror(d)
    if m is None:
        return d, None, None
    d2 = json.loads(json.dumps(d))
    d2['opts'] = dict(d['opts'], revcomp=True)
    d2['extra_contigs'] = {}
    both = merge.merge_designs(d2, m, same_contig=False)
    return d, m, sge.run_design(both)


def both_strands(ctx: Ctx):
    """One run holding a gene on the plus strand of one contig and its mirror image on the minus strand of another: the codon table is built
    per strand, so both libraries must coincide (mutator, oligonucleotide with --revcomp-minus-strand, ref_aa, alt_aa, mut_type, PAM annotation)."""
    from . import c14
    designs = []
    for i in range(ctx.n(14, 140)):
        d = c14.make_design(ctx.rng, 3 * i)          # 3 * i: never the background branch of the generator
        if d.get('gtf') and not d.get('bg'):
            designs.append(d)
    for d, m, r in pool_map(both_strands_case, designs, chunksize=2):
        if m is None:
            ctx.count('both_strands_unmirrorable')
            continue
        ctx.evaluations += 1
        ctx.count('both_strands_runs')
        if r['exit'] != 0:
            ctx.violation('spec_violation', f"a gene and its mirror image in one run: refused ({r['exc']} {r['exc_msg'][:80]})",
                          {'surface': 'file', 'kind': 'both_strands', 'design': d})
            continue
        for t, tm in zip(d['targetons'], m['targetons']):
            a = c14.library({'contig': d['contig'], 'strand': d['strand']}, r, t)
            b = c14.library({'contig': 'chr2', 'strand': m['strand']}, r, dict(tm, contig='chr2'))
            if a:
                ctx.nontriv(('both_strands', common.sha(d), t['ref_start']))
            if a != b:
                only_a, only_b = list((a - b).elements())[:3], list((b - a).elements())[:3]
                ctx.violation('spec_violation', f"a gene on {d['strand']} and its mirror image in one run: targeton {t['ref_start']}-{t['ref_end']}: rows only on the "
                              f"first contig {[(k[0], k[1][:24], k[2:5]) for k in only_a]}; only on the mirrored contig {[(k[0], k[1][:24], k[2:5]) for k in only_b]}",
                              {'surface': 'file', 'kind': 'both_strands', 'design': d})


def run(ctx: Ctx):
    tables(ctx)
    loader(ctx)
    loader_tables(ctx)
    mutators(ctx)
    files(ctx)
    both_strands(ctx)
    return {'rule': 'S-api: the default table on both strands plus random 64-codon tables (random ranks and row order, sorted by codon, tied ranks, missing codons, '
                    'duplicate codon) through the real CodonTable: translate x64, top/second codon per amino acid (incl. an absent one), synonymous codons x64, '
                    'get_top_codons with excludes; compared with the Coq model and (for tables inside the spec) an independent oracle and a row shuffle; '
                    'malformed rows through the real loader; the codon chosen by ala/stop/aa/snvre for each of the 64 reference codons on both strands under the default and '
                    'random tables (exons of eight codons, real get_cds_seq + MutatorCollection.get_variants) against the codon oracle and the Coq model; S-file: a gene and its mirror image on two contigs and strands in one run (libraries must coincide); runs with a custom table in two row orders (byte-identical outputs) and malformed tables (refused). '
                    'Non-trivial = a table inside the spec / a malformed row / a design using codon-level mutators.'}


def replay(ctx: Ctx, path: str) -> int:
    with open(path) as fh:
        v = json.load(fh)
    c = v.get('case', {})
    common.use_repo()
    bad = False
    if c.get('surface') == 'api' and 'case' in c:      # codon choice of the mutators (the eight-codon exons)
        from . import c03
        from .. import codoncheck as cc
        k = c['case']
        k[1] = [tuple(x) for x in k[1]]
        k[7] = [tuple(x) for x in k[7]] if k[7] is not None else None
        res = cc.api_region(tuple(k))
        exp = cc.oracle_rows(*k)
        bad = exp is not None and (res[0] != 'ok' or c03.rowset(exp, k[6]) != c03.rowset(res[1], k[6]))
    elif c.get('surface') == 'loader_table':
        r = loader_table_case(c['lines'])
        defective = any(x == '' or len(x.split(',')) != 4 or x.endswith('RANKQ') for x in c['lines'])
        bad = (r[0] == 'ok') == defective or (not defective and [(a, b) for a, b, _ in r[1]] != [tuple(x.split(',')[:2]) for x in c['lines']])
    elif c.get('surface') == 'api' and 'rows' in c:
        rows = [tuple(r) for r in c['rows']]
        out = impl_lookups((rows, c['rc']))
        bad = out != spec_lookups(rows, c['rc'])
        if 'shuffled' in c:
            bad = bad or impl_lookups(([tuple(r) for r in c['shuffled']], c['rc'])) != out
    elif c.get('kind') == 'both_strands':
        sub = Ctx('C17', ctx.tier, ctx.seed, None)
        sub.known, sub.matchers = [], {}
        from . import c14
        d, m, r = both_strands_case(c['design'])
        if m is not None:
            if r['exit'] != 0:
                bad = True
            else:
                for t, tm in zip(d['targetons'], m['targetons']):
                    if c14.library({'contig': d['contig'], 'strand': d['strand']}, r, t) != c14.library({'contig': 'chr2', 'strand': m['strand']}, r, dict(tm, contig='chr2')):
                        bad = True
    elif c.get('surface') == 'loader':
        r = loader_case(c['fields'])
        bad = valid_row_spec(c['fields']) != (r[0] == 'ok')
    elif c.get('surface') == 'file':
        d = c['design']
        r = sge.run_design(d)
        if d.get('_malformed'):
            bad = r['exit'] == 0
        elif 'shuffled_table' in c:
            d2 = dict(d, codon_table=c['shuffled_table'])
            r2 = sge.run_design(d2)
            bad = {k: x for k, x in r['files'].items() if k != 'config.json'} != {k: x for k, x in r2['files'].items() if k != 'config.json'}
        else:
            bad = r['exit'] != 0
    else:
        print('replay: obligation-only replay file')
        return 0
    if bad:
        print(f'VIOLATION property=C17 replay={path}')
        return 1
    print('replay: property holds on this input now')
    return 0
