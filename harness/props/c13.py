"""C13 - a targeton's outputs do not depend on the other targetons of the run."""
from __future__ import annotations

import copy
import itertools
import json
import random

from .. import common, gen, sge
from ..runner import Ctx, pool_map

SUFFIXES = ('_meta.csv', '_meta_excluded.csv', '_unique.csv', '_ref.vcf', '_pam.vcf')


def files_of(files: dict, name: str) -> dict:
    return {k: v for k, v in files.items() if k.endswith(SUFFIXES) and k[:-len(next(s for s in SUFFIXES if k.endswith(s)))] == name}


def tname(d: dict, t: dict) -> str:
    return sge.sge_targeton_name(d['contig'], d['strand'], t)


# ---------------------------------------------------------------- frame of proc_targeton on the real database

def run_framed(d: dict) -> dict:
    """Run a design in-process with proc_targeton wrapped: snapshot every table outside PER_TARGETON_TABLES before and
    after each call, and log the tables written (sqlite authorizer).  -> {'exit', 'calls': [{'name', 'changed', 'written'}]}"""
    common.use_repo()
    import sqlite3
    import valiant.sge_proc as sp
    from valiant.db import PER_TARGETON_TABLES
    per_t = {t.value for t in PER_TARGETON_TABLES}
    orig = sp.proc_targeton
    calls = []

    def snap(conn):
        cur = conn.cursor()
        names = [r[0] for r in cur.execute("select name from sqlite_master where type='table'").fetchall()]
        out = {n: cur.execute(f'select * from {n}').fetchall() for n in names if n not in per_t}
        cur.close()
        return out

    def wrapped(conn, *a, **kw):
        before = snap(conn)
        written = set()

        def auth(action, arg1, arg2, dbname, src):
            if action in (sqlite3.SQLITE_INSERT, sqlite3.SQLITE_UPDATE, sqlite3.SQLITE_DELETE) and arg1 and not arg1.startswith('sqlite_'):
                written.add(arg1)
            return sqlite3.SQLITE_OK
        conn.set_authorizer(auth)
        name = a[-1].name if a else '?'
        try:
            return orig(conn, *a, **kw)
        finally:
            conn.set_authorizer(None)
            after = snap(conn)
            calls.append({'name': name, 'changed': sorted(n for n in before if before[n] != after.get(n)),
                          'written': sorted(written), 'outside': sorted(written - per_t)})
    sp.proc_targeton = wrapped
    try:
        r = sge.run_design(d)
    finally:
        sp.proc_targeton = orig
    return {'exit': r['exit'], 'exc': r['exc'], 'calls': calls}


# ---------------------------------------------------------------- designs

def ghost_of(rng, d: dict, t: dict) -> dict:
    """A targeton that overlaps t, lists sgRNA ids but asks for no mutation."""
    n = len(d['ref'])
    s = max(2, t['ref_start'] - rng.randint(0, 6))
    e = min(n - 1, t['ref_end'] + rng.randint(0, 6))
    a = rng.randint(s, e)
    ids = sorted({p['sgrna'] for p in d.get('pam') or []}) or ['sg1']
    return {'ref_start': s, 'ref_end': e, 'r2_start': a, 'r2_end': a, 'ext': [0, 0], 'action': ['', '', ''],
            'sgrna': sorted(rng.sample(ids, rng.randint(1, len(ids))))}


def make_design(rng: random.Random, i: int) -> dict:
    focus = {'p_bg': 0.5 if i % 2 else 0.0, 'p_custom': 0.7, 'p_pam': 0.9, 'p_gtf': 0.9, 'n_targetons': rng.choice([2, 2, 3, 4]),
             'cds_mut': ['snvre', 'aa', 'ala', 'inframe'], 'non_cds_mut': ['snv', '1del', '2del0'], 'allow_short_cds': True,
             'bg_kinds': ['snv', 'ins', 'del'], 'p_mask': 0.1, 'p_no_op': 0.7, 'n_pam': [1, 2, 3], 't_max': 70}
    if i % 5 == 4:
        # no annotation: the context (and the background sequence) is then computed per targeton - some targetons within reach of a
        # background variant, some not
        focus.update(p_gtf=0.0, p_bg=1.0, n_targetons=rng.choice([3, 4]), n_bg=[1, 1, 2], max_bg=2, p_mask=0.0, bg_kinds=['snv', 'ins', 'del', 'ins', 'del'])
    d = gen.gen_sge(rng, focus)
    ts = d['targetons']
    if i % 3 == 0 and d.get('pam'):
        g = ghost_of(rng, d, rng.choice(ts))
        if not any((x['ref_start'], x['ref_end']) == (g['ref_start'], g['ref_end']) for x in ts):
            ts.insert(rng.randrange(len(ts) + 1), g)
            # the overlapped targetons sometimes list no sgRNA id themselves
            for t in ts:
                if t is not g and rng.random() < 0.6:
                    t['sgrna'] = []
    if i % 2 == 1 and d.get('gtf') and len(ts) >= 2:
        # background variants only inside a targeton that reaches outside the span of the coding sequence
        ex = gen.exons_of(d)
        lo, hi = ex[0][0], ex[-1][1]
        far = [t for t in ts if t['ref_end'] < lo - 3 or t['ref_start'] > hi + 3]
        if far:
            t = rng.choice(far)
            U = d['ref'].upper()
            recs = []
            p = rng.randint(t['ref_start'] + 1, max(t['ref_start'] + 1, t['ref_end'] - 6))
            kind = rng.choice(['snv', 'ins', 'del'])
            if kind == 'snv':
                recs.append({'pos': p, 'ref': U[p - 1], 'alts': [rng.choice([c for c in 'ACGT' if c != U[p - 1]])], 'id': 'bgx'})
            elif kind == 'ins':
                recs.append({'pos': p, 'ref': U[p - 1], 'alts': [U[p - 1] + gen.rand_dna(rng, rng.randint(1, 3))], 'id': 'bgx'})
            else:
                recs.append({'pos': p, 'ref': U[p - 1:p + 2], 'alts': [U[p - 1]], 'id': 'bgx'})
            pam_pos = {x['pos'] for x in d.get('pam') or []}
            # ... and a second variant right at a boundary of another targeton (inside it, within the length of the first one):
            # whether it is listed for that targeton must not depend on the shift the far variant causes
            others = [x for x in ts if x is not t]
            if others and rng.random() < 0.8:
                o = rng.choice(others)
                k = abs(len(recs[0]['alts'][0]) - len(recs[0]['ref'])) or 1
                # within the shift of the far variant from the boundary it would push the targeton range over
                q = rng.choice([o['ref_start'] + rng.randint(0, k - 1 if k > 1 else 1), o['ref_end'] - rng.randint(0, k - 1 if k > 1 else 1)])
                exq = gen.exons_of(d)
                if abs(q - p) > 8 and q not in pam_pos and not gen.exon_at(exq, q) and 3 < q < len(U) - 3 \
                        and not any(q in (x['r2_start'], x['r2_end']) for x in ts):
                    recs.append({'pos': q, 'ref': U[q - 1], 'alts': [rng.choice([c for c in 'ACGT' if c != U[q - 1]])], 'id': 'bgy'})
                    recs.sort(key=lambda r: r['pos'])
                    d['c13_boundary_bg'] = True
            if not (set(range(p - 1, p + 4)) & pam_pos):
                d['bg'] = recs
                d.pop('mask', None)
                d['opts']['no_op'] = True
    if i % 5 == 2 and d.get('gtf') and not d.get('bg'):
        twin_region(rng, d)
    return d


def twin_region(rng, d: dict) -> None:
    """A second targeton with exactly the same coding region 2 (another range, other guides, another PAM edit inside the region): whatever
    is computed for the region of one targeton must not be reused for the other, whose template differs."""
    exons = gen.exons_of(d)
    U = d['ref'].upper()
    ts = d['targetons']
    cands = [t for t in ts if gen.region_class(exons, t['r2_start'], t['r2_end']) == 'cds' and t['r2_end'] - t['r2_start'] >= 5]
    if not cands:
        return
    t = rng.choice(cands)
    a, b = t['r2_start'], t['r2_end']
    lo, hi = max(2, t['ref_start'] - rng.randint(1, 4)), min(len(U) - 1, t['ref_end'] + rng.randint(1, 4))
    if any((x['ref_start'], x['ref_end']) == (lo, hi) for x in ts):
        return
    # two positions of the region in different codons, free of edits
    pam = [e for e in d.get('pam') or [] if not (a <= e['pos'] <= b)]
    codon = lambda p_: tuple(sorted(gen.true_codon_positions(d, p_) or [p_]))
    ps = [p_ for p_ in range(a, b + 1) if gen.true_codon_positions(d, p_) and None not in gen.true_codon_positions(d, p_)
          and not any(codon(e['pos']) == codon(p_) for e in pam if gen.exon_at(exons, e['pos']))]
    rng.shuffle(ps)
    pair = next(((x, y) for x in ps for y in ps if codon(x) != codon(y)), None)
    if pair is None:
        return
    x, y = pair
    other = lambda c: rng.choice([z for z in 'ACGT' if z != c])
    pam += [{'pos': x, 'ref': U[x - 1], 'alt': other(U[x - 1]), 'sgrna': 'sgX'}, {'pos': y, 'ref': U[y - 1], 'alt': other(U[y - 1]), 'sgrna': 'sgY'}]
    d['pam'] = pam
    acts = sorted(set(cc_parse(t['action'][1])) | {'snv', 'snvre'})
    t['action'] = [t['action'][0], ', '.join(acts), t['action'][2]]
    t['sgrna'] = sorted(set(t.get('sgrna') or []) - {'sgY'} | {'sgX'})
    twin = {'ref_start': lo, 'ref_end': hi, 'r2_start': a, 'r2_end': b, 'ext': [0, 0], 'action': ['', ', '.join(acts), ''], 'sgrna': ['sgY']}
    ts.insert(rng.randrange(len(ts) + 1), twin)
    d.pop('vcfs', None)


def cc_parse(g: str) -> list[str]:
    return [x.strip() for x in g.split(',') if x.strip()]


def far_context_design(rng: random.Random) -> dict:
    """A targeton O around the coding sequence and a targeton F far upstream (lower coordinates) of everything else, with a
    coordinate-shifting background variant inside F and a substitution within that shift of a boundary of O: alone, the context of
    O does not reach F; together it does."""
    n = rng.randint(260, 340)
    ref = gen.rand_dna(rng, n)
    strand = rng.choice('+-')
    cs = rng.randint(120, 140)
    ce = cs + 3 * rng.randint(8, 16) - 1
    d = {'mode': 'sge', 'contig': 'chr1', 'strand': strand, 'species': 'sp', 'assembly': 'asm', 'ref': ref, 'extra_contigs': {},
         'gtf': {'gene_id': 'G1', 'transcript_id': 'T1', 'cds': [[cs, ce, 0]], 'utr': []}}
    lo_pad = 3 if strand == '-' else 0          # the stop codon is appended on the 3' side
    hi_pad = 3 if strand == '+' else 0
    O = {'ref_start': cs - lo_pad - rng.randint(8, 20), 'ref_end': ce + hi_pad + rng.randint(8, 20), 'r2_start': cs + 3, 'r2_end': cs + 3 * rng.randint(2, 5) - 1,
         'ext': [0, 0], 'action': ['', rng.choice(['snv', 'snv, ala', '1del, snvre']), ''], 'sgrna': []}
    fs = rng.randint(15, 40)
    fe = fs + rng.randint(25, 50)
    F = {'ref_start': fs, 'ref_end': min(fe, O['ref_start'] - 12), 'r2_start': fs + 5, 'r2_end': fs + 12, 'ext': [2, 2], 'action': ['snv', '1del', 'snv'], 'sgrna': []}
    U = ref
    p = rng.randint(F['r2_end'] + 4, F['ref_end'] - 6) if F['ref_end'] - 6 > F['r2_end'] + 4 else F['r2_end'] + 4
    ins = rng.random() < 0.5
    k = rng.randint(1, 4)
    if ins:
        bg1 = {'pos': p, 'ref': U[p - 1], 'alts': [U[p - 1] + gen.rand_dna(rng, k)], 'id': 'bgf'}
        q = O['ref_start'] + rng.randint(0, k - 1)          # the range of O is pushed right by k in the background coordinates
    else:
        bg1 = {'pos': p, 'ref': U[p - 1:p + k], 'alts': [U[p - 1]], 'id': 'bgf'}
        q = O['ref_end'] - rng.randint(0, k - 1)            # ... or pulled left
    bg2 = {'pos': q, 'ref': U[q - 1], 'alts': [rng.choice([c for c in 'ACGT' if c != U[q - 1]])], 'id': 'bgo'}
    d['bg'] = sorted([bg1, bg2], key=lambda r: r['pos'])
    d['targetons'] = [O, F] if rng.random() < 0.5 else [F, O]
    if rng.random() < 0.4:
        # a quiet O: no background variant in its range, no PAM edit - nothing is applied to it, so with the no-op option it has no no-op
        # row, whether or not F stretches the shared context over a background variant
        d['bg'] = [bg1]
        d['opts'] = {'revcomp': rng.random() < 0.5, 'no_op': True, 'force_ns': True}
        return d
    if rng.random() < 0.5:
        e = rng.randint(O['r2_start'], O['r2_end'])
        d['pam'] = [{'pos': e, 'ref': U[e - 1], 'alt': rng.choice([c for c in 'ACGT' if c != U[e - 1]]), 'sgrna': 'sg1'}]
        O['sgrna'] = ['sg1']
    d['opts'] = {'revcomp': rng.random() < 0.5, 'no_op': rng.random() < 0.7, 'force_ns': True}
    d['c13_boundary_bg'] = True
    return d


def orders_of(rng, n: int, k: int):
    perms = list(itertools.permutations(range(n)))
    rng.shuffle(perms)
    ident = tuple(range(n))
    out = [ident] + [p for p in perms if p != ident][:k - 1]
    return out


def run_case(args):
    d, order = args
    v = copy.deepcopy(d)
    v['targetons'] = [v['targetons'][i] for i in order]
    r = sge.run_design(v)
    return {'exit': r['exit'], 'exc': r.get('exc'), 'msg': (r.get('exc_msg') or '')[:160],
            'files': {k: x for k, x in r['files'].items() if k.endswith(SUFFIXES)}}


def first_diff(a: dict, b: dict) -> str:
    for k in sorted(set(a) | set(b)):
        if k not in a or k not in b:
            return f'{k}: written only in one of the two runs'
        if a[k] != b[k]:
            la, lb = a[k].split('\n'), b[k].split('\n')
            for i, (x, y) in enumerate(zip(la, lb)):
                if x != y:
                    cols = [j for j, (p, q) in enumerate(zip(x.split(','), y.split(','))) if p != q]
                    return f'{k} line {i + 1} (fields {cols[:4]}): {x[:100]!r} vs {y[:100]!r}'
            return f'{k}: {len(la)} vs {len(lb)} lines'
    return ''


def explore(ctx: Ctx):
    rng = ctx.rng
    n = ctx.n(100, 600)
    designs = [make_design(rng, i) if i % 5 else far_context_design(rng) for i in range(n)]
    jobs, index = [], []
    for i, d in enumerate(designs):
        k = len(d['targetons'])
        for o in orders_of(rng, k, ctx.n(3, 6)):
            jobs.append((d, o))
            index.append((i, 'together', o))
        for j in range(k):
            jobs.append((d, (j,)))
            index.append((i, 'alone', (j,)))
    results = pool_map(run_case, jobs, chunksize=2)
    by = {}
    for (i, kind, o), r in zip(index, results):
        by.setdefault(i, []).append((kind, o, r))
    for i, runs in by.items():
        d = designs[i]
        ctx.count('designs_bg' if d.get('bg') else 'designs_nobg')
        if d.get('c13_boundary_bg'):
            ctx.count('designs_far_indel_plus_boundary_variant')
        ctx.count(f"targetons_{len(d['targetons'])}")
        alone = {o[0]: r for kind, o, r in runs if kind == 'alone'}
        for kind, o, r in runs:
            if kind != 'together':
                continue
            ctx.evaluations += 1
            if r['exit'] != 0:
                # an aborted run is outside the property (C15/C19); it must at least be refused alone as well
                if all(a['exit'] == 0 for a in alone.values()):
                    ctx.violation('spec_violation', f"run of {len(o)} targetons refused ({r['exc']} {r['msg'][:60]}) although each targeton alone is accepted",
                                  {'surface': 'file', 'design': d, 'order': list(o)})
                ctx.count('aborted_runs')
                continue
            for j in o:
                t = d['targetons'][j]
                name = tname(d, t)
                a = alone[j]
                if a['exit'] != 0:
                    ctx.violation('spec_violation', f"targeton {name} refused alone ({a['exc']}) but accepted together with others",
                                  {'surface': 'file', 'design': d, 'order': list(o), 'targeton': t})
                    continue
                fa, ft = files_of(a['files'], name), files_of(r['files'], name)
                if fa:
                    ctx.nontriv((i, j))
                df = first_diff(fa, ft)
                if df:
                    ctx.violation('spec_violation', f"files of {name} differ between alone and together (order {list(o)}): {df}",
                                  {'surface': 'file', 'design': d, 'order': list(o), 'targeton': t, 'diff': df})
    ctx.sample({'design_targetons': designs[0]['targetons'], 'bg': designs[0].get('bg')})
    # cDNA mode: both table sets are cleared per targeton; files are named by sequence id + hash of the row
    cds = [gen.gen_cdna(rng, {}) for _ in range(ctx.n(30, 200))]
    cds = [d for d in cds if len(d['targetons']) > 1]
    cjobs, cidx = [], []
    for i, d in enumerate(cds):
        k = len(d['targetons'])
        cjobs.append((d, tuple(range(k))))
        cidx.append((i, None))
        cjobs.append((d, tuple(reversed(range(k)))))
        cidx.append((i, None))
        for j in range(k):
            cjobs.append((d, (j,)))
            cidx.append((i, j))
    cres = pool_map(run_case, cjobs, chunksize=2)
    tog = {}
    for (i, j), r in zip(cidx, cres):
        if j is None:
            tog.setdefault(i, []).append(r)
    for (i, j), r in zip(cidx, cres):
        if j is None:
            continue
        ctx.evaluations += 1
        ctx.count('cdna_targetons')
        for t in tog[i]:
            if t['exit'] != 0 or r['exit'] != 0:
                if t['exit'] == 0 and r['exit'] != 0:
                    ctx.violation('spec_violation', f'cDNA targeton {j} refused alone but accepted together', {'surface': 'file', 'design': cds[i], 'order': [j]})
                continue
            same = {k: t['files'].get(k) for k in r['files']}
            df = first_diff(r['files'], same if all(v is not None for v in same.values()) else {})
            if r['files']:
                ctx.nontriv(('cdna', i, j))
            if df:
                ctx.violation('spec_violation', f'cDNA targeton {j}: files differ between alone and together: {df}',
                              {'surface': 'file', 'design': cds[i], 'order': list(range(len(cds[i]['targetons']))), 'cdna_index': j, 'diff': df})
    # frame of proc_targeton on the real database
    for d in designs[:ctx.n(25, 150)]:
        fr = run_framed(d)
        for c in fr['calls']:
            ctx.corr['cases'] += 1
            if c['changed'] or c['outside']:
                ctx.corr['disagreements'] += 1
                ctx.violation('correspondence', f"proc_targeton({c['name']}) changed tables outside PER_TARGETON_TABLES: changed={c['changed']} written={c['outside']}",
                              {'surface': 'file', 'design': d, 'call': c}, broken='frame hypothesis of C13_history_independent (body_writes)')
    # negative control
    b = next((r for kind, o, r in by.get(0, []) if r['files']), None)
    if b:
        k = next(iter(b['files']))
        ctx.controls['run'] += 1
        if first_diff(b['files'], dict(b['files'], **{k: b['files'][k] + 'x'})):
            ctx.controls['rejected'] += 1
    if ctx.controls['run'] != ctx.controls['rejected']:
        ctx.violation('control', 'comparison accepted a changed file', broken='negative control', no_input=True)


def run(ctx: Ctx):
    explore(ctx)
    return {'rule': 'Random SGE designs of 2-5 targetons on one contig and strand (overlapping or disjoint, shared or unshared sgRNA ids and '
                    'custom variants, targetons that find PAM edits but produce no mutation, with and without background variants incl. '
                    'variants only inside the extra context of another targeton, no-op oligos on): every targeton alone and all of them '
                    'together in 3-6 orders, per-targeton files compared byte for byte. The frame hypothesis of the theorem is checked on '
                    'the real database (snapshot of every table outside PER_TARGETON_TABLES before/after each proc_targeton; sqlite '
                    'authorizer log of written tables). Non-trivial = a targeton with output files.',
            'assumptions': ['no state outside the database survives between targetons (module-level caches are pure lru_caches): exercised, not modelled']}


def replay(ctx: Ctx, path: str) -> int:
    with open(path) as fh:
        v = json.load(fh)
    case = v.get('case', {})
    if 'design' not in case:
        print('replay: nothing to run (obligation-only replay file)')
        return 0
    common.use_repo()
    d = case['design']
    bad = False
    if 'call' in case:
        fr = run_framed(d)
        bad = any(c['changed'] or c['outside'] for c in fr['calls'])
    else:
        o = tuple(case.get('order') or range(len(d['targetons'])))
        r = run_case((d, o))
        if d['mode'] == 'cdna':
            for j in o:
                a = run_case((d, (j,)))
                if r['exit'] == 0 and (a['exit'] != 0 or any(r['files'].get(k) != x for k, x in a['files'].items())):
                    bad = True
            o = ()
        for j in o:
            a = run_case((d, (j,)))
            name = tname(d, d['targetons'][j])
            if r['exit'] == 0 and (a['exit'] != 0 or first_diff(files_of(a['files'], name), files_of(r['files'], name))):
                bad = True
        if r['exit'] != 0 and all(run_case((d, (j,)))['exit'] == 0 for j in o):
            bad = True
    if bad:
        print(f'VIOLATION property=C13 replay={path}')
        return 1
    print('replay: property holds on this input now')
    return 0
