"""C03 - codon-level mutators act on exactly the in-frame codons inside the region."""
from __future__ import annotations

import json

from .. import codoncheck as cc, codonspec, common, gen, sge
from ..runner import Ctx, coq_dna, coq_eval, coq_list, pool_map

ALL_MUTS = ['inframe', 'ala', 'stop', 'aa', 'snvre']


def rowset(rows, labels):
    return sorted((l, p, r, a) for l, p, r, a, *_ in rows if l in labels)


# ---------------------------------------------------------------- S-api sweep

def sweep(ctx: Ctx):
    rng = ctx.rng
    tables = [None]
    t2 = gen.gen_codon_table(rng)
    tables.append([(r[0], r[1], cc.rank_of(r[3])) for r in t2])
    cases = []
    for strand, exons, seq in cc.layouts(rng, ctx.quick()):
        for (s, e, f) in exons:
            subs = [(lo, hi) for lo in range(s, e + 1) for hi in range(lo, e + 1)]
            if ctx.quick() and len(subs) > 8:
                subs = rng.sample(subs, 8)
            for lo, hi in subs:
                n = cc.exon_number_of(exons, strand, lo)
                muts = ALL_MUTS if rng.random() < 0.6 else sorted(rng.sample(ALL_MUTS, 2))
                cases.append((strand, exons, seq, lo, hi, n, muts, rng.choice(tables)))
        # a non-coding region must refuse codon-level mutators and accept the others
        cases.append((strand, exons, seq, 1, 3, None, [rng.choice(ALL_MUTS)], None))
        cases.append((strand, exons, seq, 1, 3, None, ['snv', '1del'], None))
    api_cases(ctx, cases)


def api_cases(ctx: Ctx, cases: list, what: str = 'C03 sweep', control: bool = True, chunk: int = 150):
    """Real get_cds_seq + MutatorCollection.get_variants on each case, against the reading-frame oracle and the Coq model."""
    common.use_repo()
    results = [cc.api_region(c) for c in cases]
    exprs = []
    for c, res in zip(cases, results):
        strand, exons, seq, lo, hi, n, muts, trows = c
        ctx.evaluations += 1
        ctx.count('api_' + ('cds' if n is not None else 'noncoding'))
        tbl = cc.coq_table(trows if trows is not None else [(r[0], r[1], cc.rank_of(r[3])) for r in gen.load_default_table()], strand == '-')
        exprs.append(cc.region_expr(tbl, cc.coq_transcript(exons, strand), 1, seq, n, lo, hi, muts, res))
        if n is None:
            if any(m in ALL_MUTS for m in muts):
                if res[0] != 'err':
                    ctx.violation('spec_violation', f'codon-level mutator {muts} yielded output for a non-coding region',
                                  {'surface': 'api', 'case': list(c), 'got': res})
            elif res[0] != 'ok':
                ctx.violation('spec_violation', f'snv/1del refused on a non-coding region: {res}', {'surface': 'api', 'case': list(c), 'got': res})
            continue
        exp = cc.oracle_rows(*c)
        if exp is None:
            ctx.count('api_cut_codon_skipped')
            continue
        if res[0] != 'ok':
            ctx.violation('spec_violation', f'codon-level mutators on coding region [{lo},{hi}] ({strand}) raised {res[1]}',
                          {'surface': 'api', 'case': list(c), 'got': res})
            continue
        e, g = rowset(exp, muts), rowset(res[1], muts)
        if e:
            ctx.nontriv(('api', strand, tuple(exons), lo, hi))
        if e != g:
            missing = [x for x in e if x not in g][:3]
            extra = [x for x in g if x not in e][:3]
            ctx.violation('spec_violation',
                          f'region [{lo},{hi}] strand {strand} exons {exons}: missing {missing} unexpected {extra} (dups {len(g) - len(set(g))})',
                          {'surface': 'api', 'case': list(c), 'expected': e[:40], 'got': g[:40]})
    bad, err = coq_eval(cc.IMPORTS, exprs, chunk=chunk)
    ctx.corr['cases'] += len(exprs)
    if err:
        ctx.violation('correspondence', 'model evaluation failed: ' + err[:300], broken=f'coqc cases ({what})', no_input=True)
    for i in bad:
        ctx.corr['disagreements'] += 1
        ctx.violation('correspondence', f'impl != model (region_rows) for {cases[i][0]} {cases[i][1]} region {cases[i][3:5]} {cases[i][6]}',
                      {'surface': 'api', 'case': list(cases[i]), 'impl': results[i]}, broken='correspondence S-api get_cds_seq + MutatorCollection.get_variants')
    ctx.sample({'api_case': [cases[0][0], cases[0][1], cases[0][3:7]], 'impl_rows': len(results[0][1]) if results[0][0] == 'ok' else results[0]})
    # negative control: shifting one row of the implementation's answer must be rejected by the comparator
    ctl = [e.replace('mkC "ala" ', 'mkC "ala" 1', 1) for e in exprs if 'mkC "ala" ' in e][:3] if control else []
    if ctl:
        badc, _ = coq_eval(cc.IMPORTS, ctl)
        ctx.controls['run'] += len(ctl)
        ctx.controls['rejected'] += len(badc)
        if len(badc) != len(ctl):
            ctx.violation('control', 'comparator accepted a perturbed case', broken='negative control', no_input=True)


# ---------------------------------------------------------------- file surface

def design_case(d):
    return d, sge.run_design(d)


def check_design(ctx: Ctx, d: dict, r: dict, exprs: list, meta: list):
    if r['exit'] != 0:
        ctx.count('runs_failed')
        ctx.violation('spec_violation', f"valid design refused: exit {r['exit']} {r['exc']} {r['exc_msg'][:80]}",
                      {'surface': 'file', 'design': d, 'exc': r['exc'], 'exc_msg': r['exc_msg']})
        return
    tb = codonspec.Table(d.get('codon_table'))
    trows = cc.table_rows(d)
    exons = gen.exons_of(d)
    for t, name, reg, cls, ex, muts, inside, G, fr in cc.file_regions(d, r):
        got_codon = sorted((x['mutator'], int(x['mut_position']), x['ref'], x['new']) for x in inside if x['mutator'] in cc.CODON_LABELS)
        ctx.evaluations += 1
        if cls != 'cds':
            if got_codon:
                ctx.violation('spec_violation', f'codon-level rows in the non-coding region {reg}: {got_codon[:3]}',
                              {'surface': 'file', 'design': d, 'targeton': t, 'region': reg})
            continue
        want = set(m for m in muts if m in cc.CODON_LABELS)
        exp = codonspec.region_expected(fr, tb, G, reg[0], reg[1], want)
        e = sorted((lab, p, rr, a) for lab, s in exp.items() for p, rr, a in s)
        for m in want:
            ctx.count('label:' + m)
        if e:
            ctx.nontriv((common.sha(d), name, reg))
        if e != got_codon:
            missing = [x for x in e if x not in got_codon][:3]
            extra = [x for x in got_codon if x not in e][:3]
            ctx.violation('spec_violation', f'{name} region {reg} ({d["strand"]}): missing {missing} unexpected {extra} (dups {len(got_codon) - len(set(got_codon))})',
                          {'surface': 'file', 'design': d, 'targeton': t, 'region': reg, 'expected': e[:40], 'got': got_codon[:40]})
        # the model on the same region (whole contig as the sequence; rows of every mutator of the group)
        if any(cc.canonical_label(m) != m and cc.DEL_RE.match(m) and int(cc.DEL_RE.match(m).group(1)) == 1 for m in muts):
            pass
        labs = {cc.canonical_label(m) for m in muts} | ({'snv'} if 'snvre' in muts else set())
        impl_rows = [cc.canon_file_row(x) for x in inside if x['mutator'] in labs]
        if len({cc.canonical_label(m) for m in muts}) != len(muts):
            continue   # two deletion mutators sharing a label (1del / 1delK): rows cannot be attributed
        n = len(d['ref'])
        seq = ''.join(G(p) for p in range(1, n + 1))
        exprs.append(cc.region_expr(cc.coq_table(trows, d['strand'] == '-'), cc.coq_transcript(exons, d['strand']), 1, seq,
                                    cc.exon_number_of(exons, d['strand'], reg[0]), reg[0], reg[1], muts, ('ok', impl_rows)))
        meta.append((d, t, reg))


def files(ctx: Ctx):
    n = ctx.n(120, 1500)
    focus = {'p_bg': 0.0, 'p_custom': 0.1, 'p_pam': 0.5, 'p_table': 0.3, 'p_gtf': 1.0,
             'cds_mut': ALL_MUTS, 'non_cds_mut': ['snv', '1del', '3del0', '2del1'], 'allow_short_cds': True}
    designs = []
    for i in range(n):
        f = dict(focus, n_exons=ctx.rng.choice([1, 2, 3, 3, 4]))
        if i % 3 == 0:     # background substitutions make the tool re-derive the exon frames (lift_exons)
            f.update(p_bg=1.0, bg_kinds=['snv'], p_mask=0.0)
        designs.append(gen.gen_sge(ctx.rng, f))
    results = pool_map(design_case, designs)
    exprs, meta = [], []
    for d, r in results:
        ctx.count('designs_strand' + d['strand'])
        ctx.count('designs_bg' if d.get('bg') else 'designs_nobg')
        ctx.count(f"exons_{len(d['gtf']['cds'])}")
        check_design(ctx, d, r, exprs, meta)
    if results:
        d0 = results[0][0]
        ctx.sample({'design_targetons': d0['targetons'], 'strand': d0['strand'], 'cds': d0.get('gtf', {}).get('cds')})
    bad, err = coq_eval(cc.IMPORTS, exprs, chunk=60)
    ctx.corr['cases'] += len(exprs)
    if err:
        ctx.violation('correspondence', 'model evaluation failed: ' + err[:300], broken='coqc cases (C03 files)', no_input=True)
    for i in bad:
        ctx.corr['disagreements'] += 1
        d, t, reg = meta[i]
        ctx.violation('correspondence', f'file rows of region {reg} differ from the model',
                      {'surface': 'file', 'design': d, 'targeton': t, 'region': reg}, broken='correspondence S-file rows per coding region (C03)')


def check_cdna(ctx: Ctx, d: dict, r: dict, exprs: list | None = None, meta: list | None = None):
    """cDNA mode: the codon-level rows of a coding region 2 (CDS frame from the annotation file) are the oracle's, nothing outside the region."""
    if r['exit'] != 0:
        ctx.violation('spec_violation', f"valid cDNA design refused: exit {r['exit']} {r['exc']} {r['exc_msg'][:80]}",
                      {'surface': 'file', 'design': d, 'exc': r['exc'], 'exc_msg': r['exc_msg']})
        return
    tb = codonspec.Table(d.get('codon_table'))
    annot = {a[0]: a for a in d.get('annot') or [] if a[3] != ''}
    keyed = {}
    for t in d['targetons']:
        keyed.setdefault((t['seq_id'], t['ref_start'], t['ref_end']), []).append(t)
    for n in sge.targeton_names(r['files']):
        rows = sge.all_meta_rows(r['files'], n)
        if not rows:
            continue
        cands = [t for (sid, a, b), ts in keyed.items() for t in ts if n.startswith(sid + '_') and a == int(rows[0]['ref_start']) and b == int(rows[0]['ref_end'])]
        if len(cands) != 1:
            ctx.count('cdna_ambiguous_targeton_skipped')
            continue
        t = cands[0]
        a = annot.get(t['seq_id'])
        got = sorted((x['mutator'], int(x['mut_position']), x['ref'], x['new']) for x in rows if x['mutator'] in cc.CODON_LABELS)
        ctx.evaluations += 1
        # all rows of the targeton (every mutator, with their annotation) through the model of cdna_proc.proc_targeton
        muts = [m for m in t['action'] if m]
        if exprs is not None and len({cc.canonical_label(m) for m in muts}) == len(muts):
            impl_rows = [cc.canon_file_row(x) for x in rows if x['mut_position'] != '-1']
            cds = f'(Some (mkRange {a[3]} {a[4]}))' if a else 'None'
            exprs.append(f"rows_agree (cdna_region_rows {cc.coq_table(cc.table_rows(d), False)} {cds} (mkSeq 1 {coq_dna(d['seqs'][t['seq_id']].upper())}) "
                         f"(mkRange {t['r2_start']} {t['r2_end']}) {coq_list(cc.coq_mkind(m) for m in muts)}) {cc.coq_impl(('ok', impl_rows))}")
            meta.append((d, t))
        if not (a and a[3] <= t['r2_start'] and t['r2_end'] <= a[4]):
            if got:
                ctx.violation('spec_violation', f'cDNA: codon-level rows for a region outside the CDS: {got[:3]}', {'surface': 'file', 'design': d, 'targeton': t})
            continue
        seq = d['seqs'][t['seq_id']].upper()
        fr = codonspec.Frame([(a[3], a[4], 0)], '+')
        want = set(m for m in t['action'] if m in cc.CODON_LABELS)
        exp = codonspec.region_expected(fr, tb, lambda p: seq[p - 1], t['r2_start'], t['r2_end'], want)
        e = sorted((lab, p, rr, al) for lab, st in exp.items() for p, rr, al in st)
        ctx.count('cdna_regions_offset%d' % ((t['r2_start'] - a[3]) % 3))
        if e:
            ctx.nontriv((common.sha(d), n))
        if e != got:
            missing = [x for x in e if x not in got][:3]
            extra = [x for x in got if x not in e][:3]
            ctx.violation('spec_violation', f"cDNA {t['seq_id']} region [{t['r2_start']},{t['r2_end']}] (CDS {a[3]}-{a[4]}): missing {missing} unexpected {extra} (dups {len(got) - len(set(got))})",
                          {'surface': 'file', 'design': d, 'targeton': t, 'expected': e[:40], 'got': got[:40]})


def files_cdna(ctx: Ctx):
    designs = []
    for _ in range(ctx.n(40, 500)):
        d = gen.gen_cdna(ctx.rng, {'p_table': 0.2})
        annot = {a[0]: a for a in d.get('annot') or [] if a[3] != ''}
        for t in d['targetons']:
            a = annot.get(t['seq_id'])
            if a and ctx.rng.random() < 0.8:
                # region 2 inside the CDS at every codon offset of its two ends, at or inside the targeton edges
                lo = ctx.rng.randint(max(2, a[3]), max(2, a[3], a[4] - 12))
                hi = min(a[4], lo + ctx.rng.randint(1, 14))
                t['r2_start'], t['r2_end'] = lo, hi
                t['ref_start'] = lo if ctx.rng.random() < 0.4 else max(1, lo - ctx.rng.randint(1, 9))
                t['ref_end'] = hi if ctx.rng.random() < 0.4 else min(len(d['seqs'][t['seq_id']]), hi + ctx.rng.randint(1, 9))
                t['action'] = sorted(set(ctx.rng.sample(['snv', 'snvre', 'snvre', 'ala', 'stop', 'aa', 'inframe', '1del'], 3)))
        designs.append(d)
    exprs, meta = [], []
    for d, r in pool_map(design_case, designs):
        ctx.count('designs_cdna')
        check_cdna(ctx, d, r, exprs, meta)
    model_cdna(ctx, exprs, meta)


CDNA_IMPORTS = cc.IMPORTS + ['Model.Cdna']


def model_cdna(ctx: Ctx, exprs, meta):
    bad, err = coq_eval(CDNA_IMPORTS, exprs, chunk=60)
    ctx.corr['cases'] += len(exprs)
    ctx.count('cdna_targetons_through_model', len(exprs))
    if err:
        ctx.violation('correspondence', 'model evaluation failed: ' + err[:300], broken='coqc cases (C03 cDNA)', no_input=True)
    for i in bad[:20]:
        ctx.corr['disagreements'] += 1
        d, t = meta[i]
        ctx.violation('correspondence', f"cDNA rows of {t['seq_id']} region [{t['r2_start']},{t['r2_end']}] differ from the model (cdna_region_rows)",
                      {'surface': 'file', 'design': d, 'targeton': t, 'kind': 'cdna_model'}, broken='correspondence S-file cdna_proc.proc_targeton (Model/Cdna.v)')


# ---------------------------------------------------------------- S-api: CDS features -> exons (loaders/gtf.cds_features_to_exons)

GTF_IMPORTS = ['Model.Base', 'Model.Pattern', 'Model.Transcript', 'Model.LiftExons', 'Model.Gtf']


def api_gtf(args):
    strand, cds = args
    common.use_repo()
    from valiant.loaders.gtf import CdsFeature, cds_features_to_exons
    from valiant.strings.strand import Strand
    try:
        ex = cds_features_to_exons(Strand(strand), [CdsFeature(s, e, 'G', 'T', f) for s, e, f in cds])
        ex.sort()
        return [(x.start, x.end, x.index, x.frame) for x in ex]
    except Exception:
        return None


def gtf_stage(ctx: Ctx):
    """1-5 CDS features in any file order, both strands, features next to position 1: exon numbers follow the transcript, the stop codon
    is added to the last one, the result is ascending = the Coq model and = the statement."""
    rng = ctx.rng
    cases = []
    for _ in range(ctx.n(400, 5000)):
        strand = rng.choice('+-')
        k = rng.choice([1, 1, 2, 3, 4, 5])
        pos, cds = rng.choice([1, 2, 3, 4, 9]), []
        for _i in range(k):
            ln = rng.choice([1, 2, 3, 5, 8, 13])
            cds.append((pos, pos + ln - 1, rng.choice([0, 1, 2])))
            pos += ln + rng.randint(1, 6)
        rng.shuffle(cds)
        cases.append((strand, cds))
    res = [api_gtf(c) for c in cases]
    exprs = []
    for (strand, cds), got in zip(cases, res):
        ctx.evaluations += 1
        impl = 'None' if got is None else '(Some ' + coq_list(f'mkEx {s_} {e_} {i_} {f_}' for s_, e_, i_, f_ in got) + ')'
        exprs.append(f'lift_agrees (cds_to_exons {"Plus" if strand == "+" else "Minus"} {coq_list(f"mkCdsF {s_} {e_} {f_}" for s_, e_, f_ in cds)}) {impl}')
        asc = sorted(cds)
        n = len(asc)
        want = [(s_ - (3 if strand == '-' and j == 0 else 0), e_ + (3 if strand == '+' and j == n - 1 else 0), j if strand == '+' else n - 1 - j, f_)
                for j, (s_, e_, f_) in enumerate(asc)]
        if want[0][0] < 0:
            want = None
        ctx.nontriv(('gtf', strand, tuple(cds)))
        if got != want:
            ctx.violation('spec_violation', f'CDS features {cds} on {strand} became exons {got}, expected {want}',
                          {'surface': 'api', 'kind': 'gtf', 'case': [strand, [list(c) for c in cds]], 'got': got, 'expected': want})
    bad, err = coq_eval(GTF_IMPORTS, exprs, chunk=400)
    ctx.corr['cases'] += len(exprs)
    if err:
        ctx.violation('correspondence', 'model evaluation failed: ' + err[:300], broken='coqc cases (C03 gtf)', no_input=True)
    for i in bad[:20]:
        ctx.corr['disagreements'] += 1
        ctx.violation('correspondence', f'cds_features_to_exons differs from the model for {cases[i][1]} on {cases[i][0]}',
                      {'surface': 'api', 'kind': 'gtf_model', 'case': [cases[i][0], [list(c) for c in cases[i][1]]], 'got': res[i]},
                      broken='correspondence S-api loaders/gtf.cds_features_to_exons (Model/Gtf.v)')


def run(ctx: Ctx):
    sweep(ctx)
    files(ctx)
    files_cdna(ctx)
    gtf_stage(ctx)
    return {'rule': 'S-api: small transcripts (1-3 exons of 1..7 bases, both strands, default and a permuted codon table), every sub-range of '
                    'every exon, the five codon-level mutators through the real Transcript.get_cds_seq + MutatorCollection.get_variants, '
                    'compared with the Coq model region_rows (vm_compute) and with an independent reading-frame oracle; non-coding regions '
                    'must refuse. S-file: random SGE designs (both strands, PAM edits, custom codon tables, regions starting/ending mid-codon '
                    'and next to junctions): rows of codon-level labels per coding region = oracle, and = model; random cDNA designs (region 2 inside the CDS at '
                    'every codon offset of its two ends): rows of codon-level labels = oracle. Non-trivial = a region with '
                    'at least one expected codon-level row.'}


def replay(ctx: Ctx, path: str) -> int:
    with open(path) as fh:
        v = json.load(fh)
    case = v.get('case', {})
    common.use_repo()
    bad = False
    if case.get('surface') == 'api':
        c = case['case']
        c[1] = [tuple(x) for x in c[1]]
        c[7] = [tuple(x) for x in c[7]] if c[7] is not None else None
        res = cc.api_region(tuple(c))
        if c[5] is None:
            bad = (res[0] != 'err') if any(m in ALL_MUTS for m in c[6]) else (res[0] != 'ok')
        else:
            exp = cc.oracle_rows(*c)
            bad = exp is not None and (res[0] != 'ok' or rowset(exp, c[6]) != rowset(res[1], c[6]))
    elif 'design' in case:
        d, r = design_case(case['design'])
        if d.get('mode') == 'cdna':
            ex_, me_ = [], []
            check_cdna(ctx, d, r, ex_, me_)
            model_cdna(ctx, ex_, me_)
        else:
            check_design(ctx, d, r, [], [])
        bad = bool(ctx.violations)
    else:
        print('replay: nothing to run (obligation-only replay file)')
        return 0
    if bad:
        print(f'VIOLATION property=C03 replay={path}')
        return 1
    print('replay: property holds on this input now')
    return 0
