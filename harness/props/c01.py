"""C01 - every oligonucleotide is the targeton template with exactly its mutation applied."""
from __future__ import annotations

import json

from .. import common, gen, rowcheck, rowspec, sge
from ..runner import Ctx, coq_dna, coq_eval, coq_z


def applied_edits(d: dict, t: dict):
    ids = set(t.get('sgrna') or [])
    return [p for p in (d.get('pam') or []) if p.get('sgrna') in ids and t['ref_start'] <= p['pos'] <= t['ref_end']
            and p.get('contig', d['contig']) == d['contig']]


def check_results(ctx: Ctx, results, exprs=None, meta=None):
    for d, r in results:
        if r['exit'] != 0:
            ctx.violation('spec_violation', f"valid design refused: exit {r['exit']} {r['exc']} {r['exc_msg'][:80]}",
                          {'surface': 'file', 'kind': 'refused', 'design': d})
            continue
        a5, a3 = d['opts'].get('adaptor5') or '', d['opts'].get('adaptor3') or ''
        by_name = {t['name']: t for t in r['targetons']}
        for t in d['targetons']:
            if d['mode'] == 'sge':
                name = sge.sge_targeton_name(d['contig'], d['strand'], t)
                ref = d['ref'].upper()[t['ref_start'] - 1:t['ref_end']]
                rc = bool(d['opts'].get('revcomp')) and d['strand'] == '-'
                pam = list(ref)
                for e in applied_edits(d, t):
                    pam[e['pos'] - t['ref_start']] = e['alt']
                pam = ''.join(pam)
            else:
                cands = [n for n, x in by_name.items() if n.startswith(t['seq_id'] + '_') and x['seq']['start'] == t['ref_start'] and len(x['seq']['s']) == t['ref_end'] - t['ref_start'] + 1]
                if len(cands) != 1:
                    continue
                name = cands[0]
                ref = d['seqs'][t['seq_id']].upper()[t['ref_start'] - 1:t['ref_end']]
                rc, pam = False, ''
            rows = sge.all_meta_rows(r['files'], name)
            for row in rows:
                ctx.evaluations += 1
                noop = row['mut_position'] == '-1'
                ctx.count('rows_noop' if noop else 'rows')
                case = {'surface': 'file', 'design': d, 'targeton': name,
                        'row': {k: row[k] for k in ('oligo_name', 'mut_position', 'ref', 'new', 'mutator', 'mseq_no_adapt', 'ref_start', 'revc')}}
                probs = rowspec.check_row_c01(row, rc, a5, a3, noop=noop)
                if row['ref_seq'] != ref:
                    probs.append(('c01_ref_seq', 'ref_seq is not the upper-cased FASTA over [ref_start, ref_end]'))
                if (int(row['ref_start']), int(row['ref_end'])) != (t['ref_start'], t['ref_end']):
                    probs.append(('c01_ref_range', f"ref_start/ref_end {row['ref_start']}-{row['ref_end']} for targeton {t['ref_start']}-{t['ref_end']}"))
                if row['pam_seq'] != pam:
                    probs.append(('c01_pam_seq', 'pam_seq is not the reference with the applicable PAM protection edits'))
                if not d.get('bg') and row['background_seq'] != ref:
                    probs.append(('c01_background_seq', 'background_seq differs from ref_seq although no background variant was given'))
                if row['revc'] != ('1' if d['opts'].get('revcomp') else '0') and d['mode'] == 'sge':
                    probs.append(('c01_revc', f"revc={row['revc']}"))
                if not noop and (row['new'] or row['ref']):
                    ctx.nontriv((common.sha(d), name, row['mutator'], row['mut_position'], row['ref'], row['new']))
                for kind, msg in probs:
                    ctx.violation('spec_violation', f'{kind}: {msg}', dict(case, kind=kind))
            # the no-op oligonucleotide is present exactly when requested and something was applied
            if d['mode'] == 'sge' and rows:
                want = bool(d['opts'].get('no_op')) and (bool(d.get('gtf')) and any(gen.exon_at(gen.exons_of(d), e['pos']) for e in applied_edits(d, t)) or False)
                has = any(x['mut_position'] == '-1' for x in rows)
                if d['opts'].get('no_op') is not True and has:
                    ctx.violation('spec_violation', 'c01_noop_unrequested: no-op row written without --include-no-op-oligo',
                                  {'surface': 'file', 'kind': 'c01_noop_unrequested', 'design': d, 'targeton': name})
            # the row law through the model: mr.oligo = alter(template, variant)
            tt = by_name.get(name)
            if exprs is not None and tt is not None:
                for m in tt['rows']:
                    exprs.append(f'res_eqb dna_eqb (alter (mkSeq {tt["alt"]["start"]} {coq_dna(tt["alt"]["s"])}) '
                                 f'(mkVar {coq_z(m["alt_pos"])} {coq_dna(m["ref"])} {coq_dna(m["alt"])})) (Ok {coq_dna(m["oligo"])})')
                    meta.append((d, name, m))


def files(ctx: Ctx):
    n = ctx.n(120, 1500)
    # a third of the designs are built to have a no-op row (coding PAM edits, --include-no-op-oligo), mostly with --revcomp-minus-strand
    designs = [gen.gen_sge(ctx.rng, dict({'p_bg': 0.0, 'allow_junction_pam': False, 'p_softmask': 0.5},
                                         **({'p_no_op': 1.0, 'p_revcomp': 0.7, 'p_pam': 1.0, 'p_gtf': 1.0, 'n_pam': [2, 3, 4]} if i % 3 == 0 else {})))
               for i in range(n)]
    designs += [gen.gen_cdna(ctx.rng, {}) for _ in range(n // 4)]
    # a deliberate class (own generator state): PAM protection edits exactly on the first and the last base of a targeton that is its own
    # context (no annotation): both are inside, both are applied
    import random
    r2 = random.Random(f'C01-edge-edits-{ctx.seed}')
    for _ in range(max(6, n // 10)):
        d = gen.gen_sge(r2, {'p_bg': 0.0, 'p_gtf': 0.0, 'p_pam': 1.0, 'p_custom': 0.3, 'allow_junction_pam': False, 'p_softmask': 0.3})
        U = d['ref'].upper()
        for t in d['targetons']:
            ids = t.get('sgrna') or []
            if not ids:
                continue
            for q in (t['ref_start'], t['ref_end']):
                if not any(abs(e['pos'] - q) < 1 for e in d.get('pam') or []) and not any(r['pos'] - 1 <= q <= r['pos'] + len(r['ref']) for f in d.get('vcfs') or [] for r in f['records']):
                    d.setdefault('pam', []).append({'pos': q, 'ref': U[q - 1], 'alt': r2.choice([c for c in 'ACGT' if c != U[q - 1]]), 'sgrna': ids[0]})
        d['pam'] = sorted(d.get('pam') or [], key=lambda e: e['pos'])
        designs.append(d)
    results = rowcheck.run_designs(designs)
    rowcheck.model_rows(ctx, results, 'sequence columns', fields=['ref', 'mseq_no_adapt', 'mseq', 'oligo_length'])
    exprs, meta = [], []
    check_results(ctx, results, exprs, meta)
    bad, err = coq_eval(['Model.Base', 'Model.Pattern', 'Model.Seq'], exprs)
    ctx.corr['cases'] += len(exprs)
    if err:
        ctx.violation('correspondence', 'model evaluation failed: ' + err[:300], broken='coqc cases (C01 alter)', no_input=True)
    for i in bad[:30]:
        ctx.corr['disagreements'] += 1
        d, name, m = meta[i]
        ctx.violation('correspondence', f'oligo of {m["mutator"]} {m["alt_pos"]} {m["ref"]}>{m["alt"]} is not alter(template, variant) of the model',
                      {'surface': 'file', 'design': d, 'targeton': name, 'metarow': m}, broken='correspondence Targeton.process/OligoSeq.from_ref vs Model.Seq.alter')
    ctx.sample({'targetons': designs[0]['targetons'], 'opts': designs[0]['opts'], 'strand': designs[0]['strand']})
    # negative control: a flipped base in an oligo must be rejected
    if exprs:
        e = exprs[0]
        head, _, tail = e.rpartition('(Ok (d "')
        flip = {'A': 'C', 'C': 'A', 'G': 'T', 'T': 'G'}
        ctl = [head + '(Ok (d "' + flip[tail[0]] + tail[1:]]
        badc, _ = coq_eval(['Model.Base', 'Model.Pattern', 'Model.Seq'], ctl)
        ctx.controls['run'] += 1
        ctx.controls['rejected'] += len(badc)
        if len(badc) != 1:
            ctx.violation('control', 'comparator accepted a perturbed oligo', broken='negative control', no_input=True)


C01_BG_KINDS = ('row_extra', 'row_missing', 'row_columns:mseq', 'row_columns:mseq_no_adapt', 'row_columns:ref', 'row_columns:new',
                'row_columns:oligo_length', 'pam_seq', 'ref_seq', 'background_seq', 'refused')


def bg_accept(kind: str, what: str) -> bool:
    return kind.startswith(C01_BG_KINDS)


def run(ctx: Ctx):
    files(ctx)
    # with background variants the template is the background sequence and reported positions are REF coordinates: the row law is
    # checked through the relation with the same design on the pre-edited genome (C06's metamorphic pair), on the oligo columns
    from . import c06
    c06.background_stage(ctx, ctx.n(50, 500), bg_accept)
    return {'rule': 'S-file: random SGE designs (both strands, soft-masked references, adaptors, revcomp / no-op flags, PAM edits, custom variants of every kind, '
                    'every mutator) and cDNA designs: every metadata row (included, excluded, no-op) checked by an independent oracle (ref at template position, oligo = '
                    'template with ref->new, orientation, adaptors, length, ref_seq = upper-cased FASTA, pam_seq = reference with the applicable edits) and compared with '
                    'the Coq models (alter on the recorded variant; to_csv loop body for the sequence columns). Non-trivial = distinct mutation row.'}


def replay(ctx: Ctx, path: str) -> int:
    with open(path) as fh:
        v = json.load(fh)
    c = v.get('case', {})
    ctx.known = []
    if c.get('via') == 'background_pair':
        from . import c06
        common.use_repo()
        if c06.replay_background(ctx, c, bg_accept):
            print(f'VIOLATION property=C01 replay={path}')
            return 1
        print('replay: property holds on this input now')
        return 0
    if 'design' not in c:
        print('replay: obligation-only replay file')
        return 0
    res = rowcheck.run_designs([c['design']])
    rowcheck.model_rows(ctx, res, fields=[])
    check_results(ctx, res)
    if any(x['kind'] == 'spec_violation' for x in ctx.violations):
        print(f'VIOLATION property=C01 replay={path}')
        return 1
    print('replay: property holds on this input now')
    return 0
