"""C15 - background variants that change the protein are refused unless explicitly forced."""
from __future__ import annotations

import copy
import json

from .. import bg, codonspec, common, gen, sge
from ..runner import Ctx, coq_bool, coq_dna, coq_eval, coq_list, coq_z, pool_map

IMPORTS = ['Model.Base', 'Model.Pattern', 'Model.CodonTable', 'Model.BgValidate', 'Model.Gpo', 'Model.Context', 'Model.PpeSeq']
SUFFIXES = ('_meta.csv', '_meta_excluded.csv', '_unique.csv', '_ref.vcf', '_pam.vcf')


def forced_frameshift_assertion(case: dict) -> bool:
    d = case.get('design') or {}
    o = d.get('opts') or {}
    if not (o.get('force_ns') and o.get('force_fs')) or case.get('exc') != 'AssertionError':
        return False
    return _has_forced_len(d, lambda v: (len(v[2]) - len(v[1])) % 3 != 0)


def _has_forced_len(d: dict, pred) -> bool:
    exons = gen.exons_of(d)
    fr = codonspec.Frame(exons, d['strand']) if exons else None
    tb = codonspec.Table(d.get('codon_table'))
    return any(classify(d, fr, tb, v)[0] == 'len' and pred(v) for v in bg.unmasked_variants(d))


MATCHERS = {'forced_frameshift_assertion': forced_frameshift_assertion}


def replay_known(ctx, k) -> bool:
    with open(common.VERIF + '/' + k['replay']) as fh:
        d = json.load(fh)['case']['design']
    r = run_case(d)
    return r['exc'] == 'AssertionError'


# ---------------------------------------------------------------- specification

def classify(d: dict, fr, tb, v):
    """(kind, codons) of the reported background variant v = (p, ref, alt): kind in noncoding | syn | aa | len;
    codons = [(ref codon, alt codon)] in transcript orientation for the codons a substitution touches."""
    p, r, a = v
    U = d['ref'].upper()
    if fr is None:
        return 'noncoding', []
    if not r:
        touched = p in fr.idx and (p - 1) in fr.idx
        return ('len' if touched else 'noncoding'), []
    span = list(range(p, p + len(r)))
    coding = [x for x in span if x in fr.idx]
    if not coding:
        return 'noncoding', []
    if len(r) != len(a):
        return 'len', []
    new = {x: a[i] for i, x in enumerate(span)}
    comp = (lambda x: x) if fr.strand == '+' else (lambda x: common.COMP[x])
    codons, seen, diff = [], set(), False
    for x in coding:
        cp = fr.codon_positions(x)
        if cp is None or tuple(cp) in seen:
            continue
        seen.add(tuple(cp))
        c1 = ''.join(comp(U[q - 1]) for q in cp)
        c2 = ''.join(comp(new.get(q, U[q - 1])) for q in cp)
        codons.append((c1, c2))
        if tb.tr[c1] != tb.tr[c2]:
            diff = True
    return ('aa' if diff else 'syn'), codons


def expected(d: dict):
    """-> (refused, index of the first offending targeton | None, why, per-targeton classified variants)."""
    o = d['opts']
    ns, fs = bool(o.get('force_ns')), bool(o.get('force_fs'))
    if fs and not ns:
        return True, None, 'invalid flags', []
    exons = gen.exons_of(d)
    fr = codonspec.Frame(exons, d['strand']) if exons else None
    tb = codonspec.Table(d.get('codon_table'))
    vs = bg.unmasked_variants(d)
    per_t = []
    for i, t in enumerate(d['targetons']):
        mine = [(v, classify(d, fr, tb, v)) for v in vs if t['ref_start'] <= v[0] <= t['ref_end']]
        per_t.append(mine)
        for v, (kind, _) in mine:
            if kind == 'aa' and not ns:
                return True, i, f'amino-acid change by {v}', per_t
            if kind == 'len' and not (ns and fs):
                return True, i, f'length change in coding sequence by {v}', per_t
        # a PAM protection edit of this targeton on a coding base altered by a background variant
        ids = set(t.get('sgrna') or [])
        for e in d.get('pam') or []:
            if e['sgrna'] in ids and t['ref_start'] <= e['pos'] <= t['ref_end'] and fr is not None and e['pos'] in fr.idx:
                for p, r, a in vs:
                    if r and p <= e['pos'] <= p + len(r) - 1:
                        return True, i, f'PAM edit at {e["pos"]} on a base altered by {(p, r, a)}', per_t
            # ... and an edit on a deleted base cannot be applied at all, coding or not (since fix 7b135b7 it is refused instead of being applied elsewhere)
            if e['sgrna'] in ids:
                for p, r, a in vs:
                    if r and not a and p <= e['pos'] <= p + len(r) - 1:
                        return True, i, f'PAM edit at {e["pos"]} on a base deleted by {(p, r, a)}', per_t
    return False, None, '', per_t


# ---------------------------------------------------------------- designs

def gen_design(rng, i: int, kind: str | None = None) -> dict | None:
    focus = {'p_bg': 0.0, 'p_custom': 0.2, 'p_pam': 0.5, 'p_gtf': 1.0, 'p_table': 0.1, 'n_targetons': rng.choice([1, 1, 2]),
             'n_exons': rng.choice([1, 2, 3, 3]), 'exon_lens': [12, 17, 20, 22, 31, 32, 43, 45], 'cds_mut': ['snv', 'ala'], 'non_cds_mut': ['snv', '1del'],
             'allow_short_cds': True, 'allow_junction_pam': False, 'p_softmask': 0.1, 't_min': 40, 't_max': 90}
    d = gen.gen_sge(rng, focus)
    d['extra_contigs'] = {}
    U = d['ref'].upper()
    n = len(U)
    exons = gen.exons_of(d)
    fr = codonspec.Frame(exons, d['strand'])
    tb = codonspec.Table(d.get('codon_table'))
    inex = lambda p: gen.exon_at(exons, p) is not None
    bounds = set()
    for t in d['targetons']:
        a, b = t['r2_start'], t['r2_end']
        bounds |= {t['ref_start'], t['ref_end'], a, b, a - t['ext'][0], b + t['ext'][1], a - 1, b + 1}
    for s, e, _ in exons:
        bounds |= {s, e}
    pam_pos = {p['pos'] for p in d.get('pam') or []}
    custom = set()
    for f in d.get('vcfs') or []:
        for rec in f['records']:
            custom |= set(range(rec['pos'] - 1, rec['pos'] + len(rec['ref']) + 1))
    recs, taken = [], set()

    def add(rec, span):
        wide = set(range(min(span) - 2, max(span) + 3))
        if wide & taken or min(span) < 4 or max(span) > n - 6:
            return False
        if set(span) & custom:
            return False
        taken.update(wide)
        rec['id'] = f'bg{len(recs)}'
        recs.append(rec)
        return True
    t0 = rng.choice(d['targetons'])
    # the variant under study: starts inside a targeton
    kinds = ['syn', 'aa', 'aa', 'non', 'stopstop', 'mnv', 'inframe_indel', 'fs_indel', 'fs_indel', 'intron_into_exon', 'nc_snv', 'nc_indel', 'pam_on_bg',
             'junction_aa', 'junction_syn', 'pam_on_del', 'junction_aa', 'junction_aa', 'straddle_end']
    kind = kind or kinds[i % len(kinds)]
    coding_pos = [p for p in range(t0['ref_start'] + 1, t0['ref_end'] - 7) if inex(p) and fr.codon_positions(p) and p not in pam_pos]
    nonc_pos = [p for p in range(t0['ref_start'] + 1, t0['ref_end'] - 7) if not any(inex(q) for q in range(p - 2, p + 8)) and p not in pam_pos]
    rng.shuffle(coding_pos)
    rng.shuffle(nonc_pos)
    comp = (lambda x: x) if d['strand'] == '+' else (lambda x: common.COMP[x])

    def snv_of(want, cands=None):
        for p in (cands if cands is not None else coding_pos):
            cp = fr.codon_positions(p)
            c1 = ''.join(comp(U[q - 1]) for q in cp)
            for alt in rng.sample('ACGT', 4):
                if alt == U[p - 1]:
                    continue
                c2 = ''.join(comp(alt) if q == p else comp(U[q - 1]) for q in cp)
                a1, a2 = tb.tr[c1], tb.tr[c2]
                k = 'stopstop' if a1 == a2 == 'STOP' else 'syn' if a1 == a2 else 'non' if a2 == 'STOP' else 'aa'
                if k == want:
                    return p, alt
        return None
    ok = False
    between = kind == 'between_indels'
    if between:
        kind = rng.choice(['syn', 'aa'])
    if kind in ('syn', 'aa', 'non', 'stopstop', 'pam_on_bg'):
        x = snv_of('syn' if kind == 'pam_on_bg' else kind)
        if x:
            p, alt = x
            ok = add({'pos': p, 'ref': U[p - 1], 'alts': [alt]}, [p])
            if ok and kind == 'pam_on_bg':
                ids = t0.get('sgrna') or ['sg1']
                t0['sgrna'] = sorted(set(ids))
                d.setdefault('pam', [])
                # one edit per codon: drop edits sharing the codon of p
                cp = set(fr.codon_positions(p))
                d['pam'] = [e for e in d['pam'] if e['pos'] not in cp]
                d['pam'].append({'pos': p, 'ref': U[p - 1], 'alt': rng.choice([c for c in 'ACGT' if c not in (U[p - 1], alt)]), 'sgrna': t0['sgrna'][0]})
    elif kind in ('junction_aa', 'junction_syn'):
        # a codon split by an exon junction, the variant in its half with the higher coordinate, and an unrelated indel in the
        # intron between the two halves (the lifted positions of the three bases are then not contiguous)
        jpos = [p for p in range(t0['ref_start'] + 1, t0['ref_end'] - 1) if inex(p) and fr.codon_positions(p) and p not in pam_pos
                and max(fr.codon_positions(p)) - min(fr.codon_positions(p)) > 2 and p > min(fr.codon_positions(p)) + 2]
        rng.shuffle(jpos)
        x = snv_of('aa' if kind == 'junction_aa' else 'syn', jpos) or (snv_of('non', jpos) if kind == 'junction_aa' else None)
        if x:
            p, alt = x
            cp = sorted(fr.codon_positions(p))
            gap = [q for q in range(cp[0] + 4, cp[-1] - 6) if not any(inex(y) for y in range(q - 2, q + 6)) and q not in pam_pos
                   and not (set(range(q - 1, q + 6)) & bounds)]
            ok = add({'pos': p, 'ref': U[p - 1], 'alts': [alt]}, [p])
            if ok and gap:
                q = rng.choice(gap)
                ln = rng.randint(1, 3)
                if rng.random() < 0.5:
                    add({'pos': q, 'ref': U[q - 1], 'alts': [U[q - 1] + gen.rand_dna(rng, ln)]}, [q, q + 1])
                else:
                    add({'pos': q, 'ref': U[q - 1:q + ln], 'alts': [U[q - 1]]}, list(range(q, q + ln + 1)))
    elif kind == 'mnv':
        for p in coding_pos:
            if all(inex(q) and q not in pam_pos and q not in bounds for q in (p, p + 1, p + 2)):
                ln = rng.choice([2, 3])
                alt = ''.join(rng.choice([c for c in 'ACGT' if c != U[q - 1]]) for q in range(p, p + ln))
                ok = add({'pos': p, 'ref': U[p - 1:p - 1 + ln], 'alts': [alt]}, list(range(p, p + ln)))
                break
    elif kind == 'straddle_end':
        # a multi-base substitution that starts on the last bases of the targeton and ends beyond it, inside one exon (a large exon tiled by
        # several targetons): it starts in this targeton, so it is judged here
        lo_ = t0['r2_end'] + t0['ext'][1]
        ends = [q for q in range(max(lo_, t0['ref_start'] + 8), t0['ref_end'] + 1) if all(inex(x) and fr.codon_positions(x) for x in range(q - 1, q + 4))
                and not any(x in pam_pos for x in range(q - 1, q + 4))]
        if ends:
            t0['ref_end'] = rng.choice(ends)
            p = t0['ref_end'] - rng.choice([0, 0, 1])
            ln = rng.choice([2, 3]) if p == t0['ref_end'] else 3
            alt = ''.join(rng.choice([c for c in 'ACGT' if c != U[q - 1]]) for q in range(p, p + ln))
            ok = add({'pos': p, 'ref': U[p - 1:p - 1 + ln], 'alts': [alt]}, list(range(p, p + ln)))
    elif kind == 'pam_on_del':
        # a coding deletion and a PAM edit of the targeton's guide on one of the deleted bases: refused whatever the force flags
        ln = rng.choice([1, 2, 3, 3, 6])
        for p in coding_pos:
            span = list(range(p, p + ln + 1))
            if all(inex(q) and q not in pam_pos and q not in bounds for q in span) and inex(p + ln + 1):
                ok = add({'pos': p, 'ref': U[p - 1:p + ln], 'alts': [U[p - 1]]}, span)
                if ok:
                    q = rng.choice(span[1:])
                    ids = t0.get('sgrna') or ['sg1']
                    t0['sgrna'] = sorted(set(ids))
                    cp = set(fr.codon_positions(q) or [q])
                    d['pam'] = [e for e in (d.get('pam') or []) if e['pos'] not in cp]
                    d['pam'].append({'pos': q, 'ref': U[q - 1], 'alt': rng.choice([c for c in 'ACGT' if c != U[q - 1]]), 'sgrna': t0['sgrna'][0]})
                break
    elif kind == 'padded_syn':
        # a synonymous substitution written with an unchanged leading base (CC>CT), or a phased record over two changed bases with an unchanged
        # base (codon) between them: the codons whose bases stay the same are not amino-acid changes
        x = snv_of('syn', [q for q in coding_pos if inex(q - 1) and fr.codon_positions(q - 1) and (q - 1) not in pam_pos and (q - 1) not in bounds and q not in bounds])
        if x:
            p, alt = x
            far = [q for q in coding_pos if 3 <= q - p <= 5 and all(inex(y) and fr.codon_positions(y) and y not in pam_pos and y not in bounds for y in range(p, q + 1))
                   and not (set(fr.codon_positions(q)) & set(fr.codon_positions(p)))]
            y = snv_of('syn', far) if (far and rng.random() < 0.5) else None
            if y:
                q, alt2 = y
                ref = U[p - 1:q]
                ok = add({'pos': p, 'ref': ref, 'alts': [alt + ref[1:-1] + alt2]}, list(range(p, q + 1)))
            else:
                ok = add({'pos': p - 1, 'ref': U[p - 2:p], 'alts': [U[p - 2] + alt]}, [p - 1, p])
    elif kind == 'del_by_pam':
        # an in-frame coding deletion inside the target region and a PAM edit of the targeton's guide one or two bases after it (or on the
        # base before it): with both force flags the design is valid, and the snv rows next to the deletion share a codon of the background
        # sequence with the edit - their records are widened over the deleted bases
        ln = rng.choice([3, 3, 6])
        for p in coding_pos:
            span = list(range(p, p + ln + 1))
            if t0['r2_start'] <= p - 1 and p + ln + 2 <= t0['r2_end'] and all(inex(q) and q not in pam_pos and q not in bounds for q in range(p - 1, p + ln + 3)):
                ok = add({'pos': p, 'ref': U[p - 1:p + ln], 'alts': [U[p - 1]]}, span)
                if ok:
                    q = rng.choice([p + ln + 1, p + ln + 2, p, p - 1])
                    ids = t0.get('sgrna') or ['sg1']
                    t0['sgrna'] = sorted(set(ids))
                    d['pam'] = [e for e in (d.get('pam') or []) if abs(e['pos'] - q) > ln + 6]
                    d['pam'].append({'pos': q, 'ref': U[q - 1], 'alt': rng.choice([c for c in 'ACGT' if c != U[q - 1]]), 'sgrna': t0['sgrna'][0]})
                break
    elif kind in ('inframe_indel', 'fs_indel'):
        ln = rng.choice([3, 6]) if kind == 'inframe_indel' else rng.choice([1, 2, 4, 5])
        for p in coding_pos:
            span = list(range(p, p + ln + 1))
            if all(inex(q) and q not in pam_pos and q not in bounds for q in span) and inex(p + ln + 1):
                if rng.random() < 0.5:
                    ok = add({'pos': p, 'ref': U[p - 1], 'alts': [U[p - 1] + gen.rand_dna(rng, ln)]}, [p, p + 1])
                else:
                    ok = add({'pos': p, 'ref': U[p - 1:p + ln], 'alts': [U[p - 1]]}, span)
                break
    elif kind == 'intron_into_exon':
        for s, e, _ in exons:
            # a deletion that starts in the intron and removes the first bases of the exon (or the last ones and runs into the intron)
            for p in (s - 3, e - 1):
                span = list(range(p, p + 5))
                if t0['ref_start'] < p and p + 5 < t0['ref_end'] and not (set(span) & pam_pos) and not (set(span[1:]) & (bounds - {s, e})):
                    ok = add({'pos': p, 'ref': U[p - 1:p + 4], 'alts': [U[p - 1]]}, span)
                    break
            if ok:
                break
    elif kind == 'nc_snv' and nonc_pos:
        p = nonc_pos[0]
        ok = add({'pos': p, 'ref': U[p - 1], 'alts': [rng.choice([c for c in 'ACGT' if c != U[p - 1]])]}, [p])
    elif kind == 'nc_indel' and nonc_pos:
        p = nonc_pos[0]
        ln = rng.randint(1, 4)
        if not (set(range(p, p + ln + 2)) & bounds):
            ok = add({'pos': p, 'ref': U[p - 1:p + ln], 'alts': [U[p - 1]]}, list(range(p, p + ln + 1))) if rng.random() < 0.5 else \
                add({'pos': p, 'ref': U[p - 1], 'alts': [U[p - 1] + gen.rand_dna(rng, ln)]}, [p, p + 1])
    if not ok:
        return None
    d['c15_kind'] = kind
    # unrelated companions: non-coding indels of sizes 1..7 upstream/downstream, synonymous coding SNVs elsewhere
    lo = max(4, min(t['ref_start'] for t in d['targetons']) - 30)
    hi = min(n - 12, max(t['ref_end'] for t in d['targetons']) + 30)
    for _ in range(rng.choice([0, 1, 2, 3])):
        p = rng.randint(lo, hi)
        ln = rng.randint(1, 7)
        span = list(range(p, p + ln + 2))
        if any(inex(q) for q in range(p - 2, p + ln + 3)) or set(span) & (bounds | pam_pos):
            continue
        if rng.random() < 0.5:
            add({'pos': p, 'ref': U[p - 1:p + ln], 'alts': [U[p - 1]]}, span)
        else:
            add({'pos': p, 'ref': U[p - 1], 'alts': [U[p - 1] + gen.rand_dna(rng, ln)]}, [p, p + 1])
    if rng.random() < 0.5:
        study = {q for r in recs[:1] for q in range(r['pos'] - 3, r['pos'] + len(r['ref']) + 3)}
        for p in coding_pos:
            cp = fr.codon_positions(p)
            if set(cp) & (study | pam_pos) or any(q in taken for q in cp):
                continue
            c1 = ''.join(comp(U[q - 1]) for q in cp)
            alts = [a for a in 'ACGT' if a != U[p - 1] and tb.tr[''.join(comp(a) if q == p else comp(U[q - 1]) for q in cp)] == tb.tr[c1] != 'STOP']
            if alts and add({'pos': p, 'ref': U[p - 1], 'alts': [rng.choice(alts)]}, [p]):
                break
    if between:
        study = recs[0]['pos']
        # force an unrelated non-coding indel on each side of the variant under study
        for side in (-1, 1):
            for _ in range(60):
                p = rng.randint(lo, study - 8) if side < 0 else rng.randint(study + 8, hi)
                ln = rng.randint(1, 4)
                span = list(range(p, p + ln + 2))
                if p < 4 or any(inex(q) for q in range(p - 2, p + ln + 3)) or set(span) & (bounds | pam_pos):
                    continue
                if add({'pos': p, 'ref': U[p - 1:p + ln], 'alts': [U[p - 1]]}, span) if rng.random() < 0.5 else add({'pos': p, 'ref': U[p - 1], 'alts': [U[p - 1] + gen.rand_dna(rng, ln)]}, [p, p + 1]):
                    break
        shifting = [r for r in recs[1:] if len(r['ref']) != len(r['alts'][0])]
        if not (any(r['pos'] < study for r in shifting) and any(r['pos'] > study for r in shifting)):
            return None
        d['c15_kind'] = 'between_indels'
    recs.sort(key=lambda r: r['pos'])
    if between:
        recs.reverse()
    ends = {x for t in d['targetons'] for x in (t['ref_start'], t['ref_end'], t['r2_start'], t['r2_end'])}
    if any(set(range(r['pos'] + 1, r['pos'] + len(r['ref']))) & ends for r in recs):
        return None      # a deleted targeton/region end: the targeton does not exist in the background genome (not C15's subject)
    d['bg'] = recs
    d.pop('mask', None)
    if recs and rng.random() < 0.3:
        # a BED mask interval (0-based, half-open) right on a variant or one base off it: only the variant that starts inside is ignored
        rec = rng.choice(recs)
        p = bg.reported(rec['pos'], rec['ref'].upper(), rec['alts'][0].upper())[0]
        lo, hi = rng.choice([(p - 1, p), (p - 1, p), (p, p + 1), (p - 2, p - 1), (p - 3, p + 2)])
        d['mask'] = [[d['contig'], max(0, lo), hi]]
        d['c15_kind'] = d.get('c15_kind', '?') + '+mask'
    return d


def with_flags(d: dict, ns: bool, fs: bool) -> dict:
    v = copy.deepcopy(d)
    v['opts'] = dict(d['opts'], force_ns=ns, force_fs=fs)
    return v


def run_case(d):
    r = sge.run_design(d)
    return {'exit': r['exit'], 'exc': r['exc'], 'msg': (r.get('exc_msg') or '')[:200],
            'files': sorted(k for k in r['files'] if k.endswith(SUFFIXES)),
            'critical': [m for lvl, m in r['log'] if lvl == 'CRITICAL'][:3]}


def coq_bgvar(v, cls) -> str:
    p, r, a = v
    kind, codons = cls
    if kind == 'noncoding':
        cod = '[]'
    elif kind == 'len':
        cod = '[(d "AAA", d "AAA")]'        # some codon is touched; the length change decides
    else:
        cod = coq_list(f'({coq_dna(x)}, {coq_dna(y)})' for x, y in codons)
    return f'(mkBg {coq_z(len(a) - len(r))} {cod})'


def check(ctx: Ctx, d: dict, r: dict, exprs: list, meta: list):
    refused, idx, why, per_t = expected(d)
    o = d['opts']
    ctx.evaluations += 1
    ctx.count('kind_' + d.get('c15_kind', '?'))
    ctx.count(f"flags_ns{int(bool(o.get('force_ns')))}_fs{int(bool(o.get('force_fs')))}")
    ctx.count('expected_refused' if refused else 'expected_accepted')
    got_refused = r['exit'] != 0
    forced_len = (not refused) and any(k == 'len' for mine in per_t for _, (k, _) in mine)
    if forced_len and r['exit'] != 0 and r['exc'] != 'AssertionError' \
            and not any('Invalid background' in m for m in r['critical']):
        # downstream of an accepted (forced) length change in coding sequence the design may be refused for other reasons -
        # a target region now straddling the moved exon boundary, two PAM edits now sharing a codon of the shifted frame:
        # the background itself was tolerated, which is all C15 says (the other refusals are C19's rules)
        ctx.count('forced_length_change_then_refused_for_another_reason')
        return
    if r['exc'] is not None and not refused:
        ctx.violation('spec_violation', f"valid background design died with {r['exc']}: {r['msg'][:100]} (kind {d.get('c15_kind')})",
                      {'surface': 'file', 'design': d, 'exc': r['exc'], 'msg': r['msg']})
        return
    if r['exc'] is not None:
        ctx.count('refused_by_traceback')
    if refused != got_refused:
        ctx.violation('spec_violation',
                      f"{'accepted' if not got_refused else 'refused'} (exit {r['exit']}, {r['critical'][:1]}) but expected {'refusal: ' + why if refused else 'acceptance'} "
                      f"[kind {d.get('c15_kind')}, strand {d['strand']}, ns={bool(o.get('force_ns'))} fs={bool(o.get('force_fs'))}, bg={[(x['pos'], x['ref'], x['alts'][0]) for x in d['bg']]}]",
                      {'surface': 'file', 'design': d, 'expected': why, 'exit': r['exit'], 'critical': r['critical']})
        return
    ctx.nontriv((common.sha(d['bg']), d.get('c15_kind'), refused))
    if refused and idx is not None:
        name = sge.sge_targeton_name(d['contig'], d['strand'], d['targetons'][idx])
        left = [f for f in r['files'] if any(f == name + s for s in SUFFIXES)]
        if left:
            ctx.violation('spec_violation', f'refused run left library files of the offending targeton: {left}', {'surface': 'file', 'design': d, 'files': left})
    # the decision loop of the model on the classified variants of each targeton up to the verdict
    tb = codonspec.Table(d.get('codon_table'))
    if o.get('force_fs') and not o.get('force_ns'):
        return
    # the three refusal rules of proc_targeton in sequence: the validation loop over the variants starting in the targeton, the edits of the
    # targeton's guides that have no image in the background sequence (offsets over the context the model of get_gpo_ctx returns), the edits
    # on a coding base inside the reference span of a background variant
    allv = bg.unmasked_variants(d)
    exons = gen.exons_of(d)
    fr = codonspec.Frame(exons, d['strand']) if exons else None
    los = [t['ref_start'] for t in d['targetons']] + [e[0] for e in exons]
    his = [t['ref_end'] for t in d['targetons']] + [e[1] for e in exons]
    ca, cb = min(los) - (1 if min(los) > 1 else 0), max(his)
    stats = coq_list(f'mkVS {p_} {len(r_)} {len(a_)}' for p_, r_, a_ in allv)
    spans = coq_list(f'({p_}, {p_ + max(0, len(r_) - 1)})' for p_, r_, a_ in allv)
    for i, mine in enumerate(per_t):
        want_err = refused and i == idx
        t = d['targetons'][i]
        ids = set(t.get('sgrna') or [])
        mine_ppes = [e for e in d.get('pam') or [] if e['sgrna'] in ids]
        inside = [e for e in mine_ppes if t['ref_start'] <= e['pos'] <= t['ref_end']]
        vs = coq_list(coq_bgvar(v, cls) for v, cls in mine)
        exprs.append(f"is_ok (do _ <- validate std_table {coq_bool(bool(o.get('force_ns')))} {coq_bool(bool(o.get('force_fs')))} {vs}; "
                     f"do gc <- gpo_ctx {stats} (mkRange {ca} {cb}); "
                     f"do _ <- check_ppes_liftable (fst gc) {coq_list(coq_z(e['pos']) for e in mine_ppes)}; "
                     f"check_ppe_bg {coq_list('(%d, %s)' % (e['pos'], coq_bool(fr is not None and e['pos'] in fr.idx)) for e in inside)} {spans}) =? {coq_bool(not want_err)}")
        meta.append((d, i))


STD_DEF = None


def std_table_def() -> str:
    rows = gen.load_default_table()
    body = coq_list(f'mkRow {coq_dna(r[0])} "{r[1]}" {1 if r[3][4:] in ("U", "T", "UT") else int(r[3][4:])}' for r in rows)
    return ('Definition std_table : table := ' + body + '.\n'
            'Definition beqb (a b : bool) : bool := Bool.eqb a b.\nInfix "=?" := beqb (at level 70).\n')


def explore(ctx: Ctx, kind: str | None = None, n: int | None = None, rng=None):
    n = n or ctx.n(180, 2600)
    rng = rng or ctx.rng
    designs = []
    i = 0
    while len(designs) < n and i < 6 * n:
        d = gen_design(rng, i, kind)
        i += 1
        if d is not None and 'codon_table' not in d:
            designs.append(d)
    if not designs:
        return
    # the records of the background VCF in any order (a plain-text VCF is read in file order; the verdict may not depend on it) - except
    # when two records touch (C06: their relative order is then the one a position-sorted VCF has).  Own generator state.
    import random
    from . import c06
    r_ord = random.Random(f'C15-bg-order-{ctx.seed}-{kind}')
    for j, d in enumerate(designs):
        if j % 3 == 1 and len(d.get('bg') or []) > 1 and not c06.touching(d['bg']):
            if r_ord.random() < 0.5:
                d['bg'] = list(reversed(d['bg']))
            else:
                r_ord.shuffle(d['bg'])
            d['c15_kind'] = d.get('c15_kind', '?') + '+unsorted'
    jobs = []
    for j, d in enumerate(designs):
        combos = [(False, False), (True, False), (True, True)] + ([(False, True)] if j % 6 == 0 else [])
        for ns, fs in combos:
            jobs.append(with_flags(d, ns, fs))
    results = pool_map(run_case, jobs, chunksize=2)
    exprs, meta = [], []
    for d, r in zip(jobs, results):
        check(ctx, d, r, exprs, meta)
    ctx.sample({'kind': jobs[0].get('c15_kind'), 'bg': jobs[0]['bg'], 'strand': jobs[0]['strand'], 'cds': jobs[0]['gtf']['cds']})
    bad, err = coq_eval(IMPORTS, exprs, defs=std_table_def(), chunk=400)
    ctx.corr['cases'] += len(exprs)
    if err:
        ctx.violation('correspondence', 'model evaluation failed: ' + err[:300], broken='coqc cases (C15)', no_input=True)
    for k in bad:
        ctx.corr['disagreements'] += 1
        d, i = meta[k]
        ctx.violation('correspondence', f'the decision of the model loop differs from the run for targeton {i} (kind {d.get("c15_kind")})',
                      {'surface': 'file', 'design': d, 'targeton_index': i, 'expr': exprs[k][:600]}, broken='correspondence validate_background_variants decision')
    # negative control: flipping the expected decision must be rejected
    ctl = [e.replace('=? true', '=? false') if e.endswith('true') else e.replace('=? false', '=? true') for e in exprs[:3]]
    badc, _ = coq_eval(IMPORTS, ctl, defs=std_table_def())
    ctx.controls['run'] += len(ctl)
    ctx.controls['rejected'] += len(badc)
    if len(badc) != len(ctl):
        ctx.violation('control', 'comparator accepted a flipped decision', broken='negative control', no_input=True)


# ---------------------------------------------------------------- S-api: which codons a variant is judged on

CODON_IMPORTS = ['Model.Base', 'Model.Pattern', 'Model.Transcript', 'Model.CodonsInRange']


def api_codons(args):
    """(strand, exons[(s,e,f)], seq (start 1), pos, ref_len) -> [(ext_start, codon bases)] of the real get_variant_codons, or None when it raised."""
    strand, exons, seq, pos, ref_len = args
    common.use_repo()
    from .. import codoncheck as cc
    from valiant.exon import Exon
    from valiant.seq import Seq
    from valiant.strings.dna_str import DnaStr
    from valiant.strings.strand import Strand
    from valiant.targeton import get_variant_codons
    from valiant.transcript import Transcript
    from valiant.transcript_info import TranscriptInfo
    from valiant.uint_range import UIntRangeSortedList
    from valiant.variant import Variant
    try:
        tr = Transcript(TranscriptInfo('chr1', Strand(strand), 'G', 'T'),
                        UIntRangeSortedList([Exon(s, e, i, f) for s, e, i, f in cc.numbered(exons, strand)]))
        cs = get_variant_codons(tr, Seq(1, DnaStr(seq)), Variant(pos, DnaStr('A' * ref_len), DnaStr('C')))
        return [(c.ext_start, str(c.ext)) for c in cs]
    except Exception:
        return None


def codon_stage(ctx: Ctx):
    """Transcripts of 1-4 exons of 1-9 bases (micro-exons included) on low-complexity sequences (runs of identical codons), both strands; a variant
    span of 0-9 bases anywhere: the codons returned = the model's, and = the distinct codons of the coding walk that hold an exonic base of the span."""
    from .. import codoncheck as cc
    rng = ctx.rng
    cases = []
    for _ in range(ctx.n(900, 12000)):
        strand = rng.choice('+-')
        k = rng.choice([1, 2, 3, 3, 4])
        lens = [rng.choice([1, 1, 2, 3, 3, 4, 5, 6, 7, 9]) for _ in range(k)]
        pos, segs = rng.randint(3, 6), []
        for ln in lens:
            segs.append((pos, pos + ln - 1))
            pos += ln + rng.randint(1, 4)
        n = pos + 3
        order = segs if strand == '+' else list(reversed(segs))
        f, ex = rng.choice([0, 0, 1, 2]), []
        for s_, e_ in order:
            ex.append((s_, e_, f))
            f = gen.next_frame(f, e_ - s_ + 1)
        alphabet = rng.choice(['ACGT', 'AC', 'CTG', 'A', 'GT'])
        unit = ''.join(rng.choice(alphabet) for _ in range(rng.choice([1, 2, 3, 3, 6])))
        seq = (unit * (n // len(unit) + 1))[:n] if rng.random() < 0.7 else gen.rand_dna(rng, n)
        p = rng.randint(2, n - 1)
        ln = rng.choice([0, 1, 1, 2, 2, 3, 4, 5, 6, 9])
        if p + max(ln, 1) - 1 > n:
            continue
        cases.append((strand, sorted(ex), seq, p, ln))
    res = pool_map(api_codons, cases, chunksize=64)
    exprs = []
    for (strand, ex, seq, p, ln), got in zip(cases, res):
        ctx.evaluations += 1
        tr = cc.coq_transcript(ex, strand)
        impl = 'None' if got is None else '(Some ' + coq_list(f'({a}, {coq_dna(b)})' for a, b in got) + ')'
        exprs.append(f'codons_agree (codon_keys (get_variant_codons {tr} (mkSeq 1 {coq_dna(seq)}) {p} {ln})) {impl}')
        # independent oracle: the distinct codons (by their lowest genomic position) of the walk holding an exonic base of the span
        fr = codonspec.Frame(ex, strand)
        span = range(p, p + max(ln, 1)) if ln != 1 else [p]
        if ln == 0:
            span = [p]
        want = set()
        cut = False
        for x in span:
            if x in fr.idx:
                cp = fr.codon_positions(x)
                if cp is None:
                    cut = True
                else:
                    want.add(min(cp))
        if got is not None and not cut:
            have = {a for a, _ in got}
            if want:
                ctx.nontriv(('codons', strand, tuple(ex), p, ln))
            ctx.count('codon_spans:%d' % min(len(want), 3))
            if have != want:
                ctx.violation('spec_violation', f'codons judged for a variant at {p} (+{ln}) on {strand} {ex}: first bases {sorted(have)}, the codons of the span start at {sorted(want)}',
                              {'surface': 'api', 'kind': 'codons', 'case': [strand, [list(e) for e in ex], seq, p, ln], 'got': got})
            elif len(have) != len(got):
                ctx.violation('spec_violation', f'a codon is judged twice for a variant at {p} (+{ln}) on {strand} {ex}: {got}',
                              {'surface': 'api', 'kind': 'codons', 'case': [strand, [list(e) for e in ex], seq, p, ln], 'got': got})
    bad, err = coq_eval(CODON_IMPORTS, exprs, chunk=300)
    ctx.corr['cases'] += len(exprs)
    if err:
        ctx.violation('correspondence', 'model evaluation failed: ' + err[:300], broken='coqc cases (C15 codons)', no_input=True)
    for i in bad[:20]:
        ctx.corr['disagreements'] += 1
        strand, ex, seq, p, ln = cases[i]
        ctx.violation('correspondence', f'get_variant_codons differs from the model for a variant at {p} (+{ln}) on {strand} {ex}',
                      {'surface': 'api', 'kind': 'codons_model', 'case': [strand, [list(e) for e in ex], seq, p, ln], 'got': res[i]},
                      broken='correspondence S-api targeton.get_variant_codons / Transcript.get_codons_in_range (Model/CodonsInRange.v)')
    ctl = [e.replace('(Some [', '(Some [(1, []); ', 1) for e in exprs if '(Some [(' in e][:3]
    if ctl:
        badc, _ = coq_eval(CODON_IMPORTS, ctl)
        ctx.controls['run'] += len(ctl)
        ctx.controls['rejected'] += len(badc)
        if len(badc) != len(ctl):
            ctx.violation('control', 'comparator accepted a perturbed codon list', broken='negative control', no_input=True)


def run(ctx: Ctx):
    codon_stage(ctx)
    explore(ctx)
    # a deliberate class (its own generator state, so that the designs above stay what they were): deletions next to a PAM edit
    import random
    explore(ctx, 'del_by_pam', ctx.n(24, 240), random.Random(f'C15-del-by-pam-{ctx.seed}'))
    explore(ctx, 'padded_syn', ctx.n(24, 240), random.Random(f'C15-padded-syn-{ctx.seed}'))
    # a coding substitution between two unrelated indels, the records listed in descending order (own generator state)
    explore(ctx, 'between_indels', ctx.n(16, 160), random.Random(f'C15-between-indels-{ctx.seed}'))
    return {'rule': 'Random SGE designs with one background variant under study starting inside a targeton (synonymous / missense / '
                    'nonsense / stop-to-stop SNV, coding MNV, in-frame and frame-shifting coding indel, deletion reaching from an intron into '
                    'an exon, non-coding SNV/indel, PAM edit on a background-altered coding base) plus 0-3 unrelated non-coding indels of 1-7 '
                    'bases and a synonymous SNV elsewhere, both strands, run under the three valid force-flag combinations (and the invalid '
                    'one); exit status and absence of the offending targeton files are compared with the decision rule computed by an '
                    'independent codon-walk oracle, and the verdict of the Coq model of the validation loop on the classified variants is '
                    'compared with the run. S-api: the codons a variant is judged on (get_variant_codons / get_codons_in_range) on micro-exon transcripts over '
                    'low-complexity sequences = the Coq model and = the distinct walk codons holding an exonic base of the span. Non-trivial = a (background set, kind, verdict) combination.'}


def replay(ctx: Ctx, path: str) -> int:
    with open(path) as fh:
        v = json.load(fh)
    case = v.get('case', {})
    if case.get('kind') in ('codons', 'codons_model'):
        from .. import codoncheck as cc
        strand, ex, seq, p, ln = case['case']
        ex = [tuple(e) for e in ex]
        got = api_codons((strand, ex, seq, p, ln))
        impl = 'None' if got is None else '(Some ' + coq_list(f'({a}, {coq_dna(b)})' for a, b in got) + ')'
        badm, err = coq_eval(CODON_IMPORTS, [f'codons_agree (codon_keys (get_variant_codons {cc.coq_transcript(ex, strand)} (mkSeq 1 {coq_dna(seq)}) {p} {ln})) {impl}'])
        fr = codonspec.Frame(ex, strand)
        want = {min(fr.codon_positions(x)) for x in (range(p, p + ln) if ln > 1 else [p]) if x in fr.idx and fr.codon_positions(x)}
        if badm or err or (got is not None and ({a for a, _ in got} != want or len({a for a, _ in got}) != len(got))):
            print(f'VIOLATION property=C15 replay={path}')
            return 1
        print('replay: property holds on this input now')
        return 0
    if 'design' not in case:
        print('replay: nothing to run (obligation-only replay file)')
        return 0
    common.use_repo()
    d = case['design']
    check(ctx, d, run_case(d), [], [])
    if ctx.violations:
        print(f'VIOLATION property=C15 replay={path}')
        return 1
    print('replay: property holds on this input now')
    return 0
