"""C12 - outputs are a deterministic function of input content, not of order or hashing."""
from __future__ import annotations

import copy
import json
import re
import random

from .. import common, gen, rows as rowsmod, sge
from ..runner import Ctx, pool_map

SUFFIXES = ('_meta.csv', '_meta_excluded.csv', '_unique.csv', '_ref.vcf', '_pam.vcf')
IDENT = ('alt_pos', 'ref', 'alt', 'mutator', 'vcf_alias', 'vcf_var_id')     # ref_start, ref, alt, mutator, vcf_alias, vcf_var_id


def per_targeton(files: dict) -> dict:
    return {k: v for k, v in files.items() if k.endswith(SUFFIXES)}


def spaced(rng, items, allow_before_comma=False) -> str:
    """Items joined with commas and random blanks where the vector grammar allows them."""
    out = ' ' * rng.choice([0, 0, 1, 2])
    for i, it in enumerate(items):
        if i:
            out += ',' + ' ' * rng.choice([0, 1, 1, 2])
        out += it
        if i == 0 or allow_before_comma:
            out += ' ' * rng.choice([0, 0, 1])
    return out + ' ' * rng.choice([0, 0, 1])


def alias_spelling(x: str) -> str:
    """The other documented spelling of a parametric deletion (`<SPAN>del[<OFFSET>]`, offset zero when absent): 2del0 <-> 2del."""
    m = re.fullmatch(r'(\d+)del(0?)', x)
    return x if not m else (m.group(1) + 'del' + ('' if m.group(2) else '0'))


def shuffled_dups(rng, items):
    items = list(items)
    for _ in range(rng.choice([0, 1, 1, 2])):
        if items:
            x = rng.choice(items)
            items.append(alias_spelling(x) if rng.random() < 0.4 else x)     # a duplicate may use the equivalent spelling
    rng.shuffle(items)
    return items


def mask_case(rng, s: str, p=0.3) -> str:
    return ''.join(c.lower() if rng.random() < p else c.upper() for c in s)


def variant_of(d: dict, rng: random.Random) -> tuple[dict, list[str]]:
    """The same content presented differently: order of rows/records/lines/items, duplicates, blanks, letter case."""
    v = copy.deepcopy(d)
    what = []
    rng.shuffle(v['targetons'])
    what.append('targeton_rows')
    if d['mode'] == 'sge':
        for t in v['targetons']:
            groups = []
            for g in t['action']:
                items = [x.strip() for x in g.split(',') if x.strip()]
                groups.append('(' + spaced(rng, shuffled_dups(rng, items)) + ')')
            t['action_raw'] = (',' + ' ' * rng.choice([0, 1, 2])).join(groups)
            t['ext_raw'] = spaced(rng, [str(t['ext'][0]), str(t['ext'][1])], True)
            if t.get('sgrna'):
                t['sgrna_raw'] = spaced(rng, shuffled_dups(rng, t['sgrna']), True)
        what += ['action_items', 'ext_spacing', 'sgrna_items']
        if v.get('pam'):
            rng.shuffle(v['pam'])
            for p in v['pam']:
                if rng.random() < 0.3:
                    p['ref'], p['alt'] = p['ref'].lower(), p['alt'].lower()
            what.append('pam_records')
        if v.get('vcfs'):
            order = list(range(len(v['vcfs'])))
            rng.shuffle(order)
            v['manifest_order'] = order
            for f in v['vcfs']:
                rng.shuffle(f['records'])
                for rec in f['records']:
                    if rng.random() < 0.3:
                        rec['ref'] = mask_case(rng, rec['ref'], 0.6)
                        if rec.get('alts'):
                            rec['alts'] = [mask_case(rng, a, 0.6) for a in rec['alts']]
            what += ['manifest_lines', 'custom_records', 'allele_case']
        if v.get('bg'):
            rng.shuffle(v['bg'])
            for rec in v['bg']:
                if rng.random() < 0.3:
                    rec['ref'] = rec['ref'].lower()
                    rec['alts'] = [a.lower() for a in rec['alts']]
            what.append('bg_records')
        if v.get('gtf'):
            n = len(v['gtf']['cds']) + len(v['gtf'].get('utr', []))
            order = list(range(n))
            rng.shuffle(order)
            v['gtf']['order'] = order
            what.append('gtf_lines')
        v['ref'] = mask_case(rng, v['ref'], rng.choice([0.0, 0.2, 1.0]))
        what.append('reference_case')
    else:
        for t in v['targetons']:
            t['action_raw'] = spaced(rng, shuffled_dups(rng, t['action']), True)
        for k in list(v['seqs']):
            v['seqs'][k] = v['seqs'][k]   # cDNA sequences are not upper-cased by the tool (DnaStr validates): left as is
        if v.get('annot'):
            rng.shuffle(v['annot'])
        what += ['action_items', 'annot_lines']
    return v, what


def run_case(args):
    d, how, env = args
    r = sge.run_design(d, how=how, env_extra=env)
    return {'exit': r['exit'], 'exc': r.get('exc'), 'files': per_targeton(r['files']), 'msg': (r.get('exc_msg') or '')[:200]}


def first_diff(a: dict, b: dict) -> str:
    for k in sorted(set(a) | set(b)):
        if k not in a:
            return f'{k}: only in the second run'
        if k not in b:
            return f'{k}: only in the first run'
        if a[k] != b[k]:
            la, lb = a[k].split('\n'), b[k].split('\n')
            for i, (x, y) in enumerate(zip(la, lb)):
                if x != y:
                    return f'{k} line {i + 1}: {x[:120]!r} vs {y[:120]!r}'
            return f'{k}: {len(la)} vs {len(lb)} lines'
    return ''


def make_designs(ctx: Ctx, n: int):
    rng = ctx.rng
    out = []
    for i in range(n):
        if i % 5 == 4:
            d = gen.gen_cdna(rng, {'p_table': 0.1})
            for t in d['targetons']:
                if rng.random() < 0.7 and 'snvre' not in t['action'] and any(m in t['action'] for m in ('ala', 'aa', 'stop', 'inframe')):
                    t['action'] = sorted(set(t['action']) | {'snvre'})
        else:
            focus = {'p_bg': 0.5, 'n_bg': [2, 3, 4, 5], 'max_bg': 6, 'p_custom': 0.8, 'p_pam': 0.8, 'p_gtf': 0.9, 'p_table': 0.1, 'n_targetons': rng.choice([1, 2, 3]),
                     'cds_mut': ['snvre', 'snvre', 'aa', 'ala', 'stop', 'inframe'], 'non_cds_mut': ['snv', '1del', '2del0', '2del1'],
                     'allow_short_cds': True, 'bg_kinds': ['snv', 'ins', 'ins', 'del', 'del'], 'custom_kinds': ['snv', 'snv', 'mnv', 'ins', 'del', 'multi']}
            d = gen.gen_sge(rng, focus)
            # ties on every proper prefix of the ORDER BY key: records at one position, in several files, with and without ids
            if d.get('vcfs'):
                f0 = d['vcfs'][0]
                for rec in list(f0['records'])[:2]:
                    if rec.get('alts') and len(rec['ref']) == 1 and len(rec['alts'][0]) == 1:
                        others = [x for x in 'ACGT' if x not in (rec['ref'].upper(), rec['alts'][0].upper())]
                        f0['records'].append(dict(rec, alts=[rng.choice(others)], info=dict(rec.get('info') or {})))
                if len(d['vcfs']) > 1 and f0['records']:
                    rec = copy.deepcopy(rng.choice(f0['records']))
                    rec['info'] = {d['vcfs'][1]['id_tag']: '77'} if d['vcfs'][1].get('id_tag') else {}
                    d['vcfs'][1]['records'].append(rec)
        if d['mode'] == 'sge' and i % 4 == 1:
            # length limits that exclude every oligonucleotide of the longer targetons and none (or only the insertions) of the shortest
            ad = len(d['opts'].get('adaptor5') or '') + len(d['opts'].get('adaptor3') or '')
            lens = [t['ref_end'] - t['ref_start'] + 1 + ad for t in d['targetons']]
            if rng.random() < 0.6:
                d['opts']['max_length'] = min(lens) + rng.choice([0, 0, 1])
            else:
                d['opts']['min_length'] = max(lens) - rng.choice([0, 0, 1])
        if d['mode'] == 'sge' and i % 7 == 3:
            # two contigs in one run whose targetons share sgRNA names (the edits differ): the order of the targeton rows decides which
            # contig is processed first
            e = gen.gen_sge(rng, dict(focus, p_pam=1.0, p_bg=0.0, n_targetons=1, p_gtf=1.0 if d.get('gtf') else 0.0))
            d0 = gen.gen_sge(rng, dict(focus, p_pam=1.0, p_bg=0.0, n_targetons=rng.choice([1, 2]), p_gtf=1.0 if d.get('gtf') else 0.0))
            for x in (d0, e):
                # both contigs use the guide name sg1, with an edit of their own inside a targeton that lists it
                t_ = x['targetons'][0]
                inr = [p_ for p_ in x.get('pam') or [] if t_['ref_start'] <= p_['pos'] <= t_['ref_end']]
                if inr:
                    for p_ in x['pam']:
                        if p_['sgrna'] == 'sg1':
                            p_['sgrna'] = 'sg9'
                    for t2_ in x['targetons']:
                        t2_['sgrna'] = ['sg9' if g_ == 'sg1' else g_ for g_ in (t2_.get('sgrna') or [])]
                    inr[0]['sgrna'] = 'sg1'
                    t_['sgrna'] = ['sg1']        # the same set of guide names on both contigs
                x['extra_contigs'] = {}
                for f in x.get('vcfs') or []:
                    f['records'] = [r for r in f['records'] if r.get('contig', x['contig']) == x['contig']]
            from .. import merge
            d = merge.merge_designs(d0, e, same_contig=False)
        out.append(d)
    return out


def fd_check(ctx: Ctx, designs):
    """The hypothesis of C12_meta_order_total on the implementation: the rows MetaTable.to_csv reads are a function of
    their identity columns (no two rows of one targeton agree on them and differ elsewhere)."""
    for d in designs:
        try:
            r = rowsmod.run_recorded(d)
        except rowsmod.AdaptorError as ex:
            ctx.violation('correspondence', f'recorder adaptor failed: {ex}', broken='S-api MetaRow recorder', no_input=True)
            return
        for t in r.get('targetons', []):
            seen = {}
            for m in t['rows']:
                k = tuple(m[c] for c in IDENT)
                ctx.evaluations += 1
                ctx.corr['cases'] += 1
                if k in seen and seen[k] != m:
                    diff = [c for c in m if m[c] != seen[k][c]]
                    ctx.violation('spec_violation', f"{t['name']}: two rows with the same position/alleles/mutator/alias/id differ in {diff}",
                                  {'surface': 'file', 'design': d, 'rows': [seen[k], m]})
                seen[k] = m
            if len(seen) > 1:
                ctx.nontriv(('fd', common.sha(d), t['name']))
            ctx.count('fd_targetons')


def explore(ctx: Ctx):
    n = ctx.n(40, 300)
    designs = make_designs(ctx, n)
    # a deliberate class (own generator state): several background variants and a BED mask over one of them - the re-presentations list the
    # records in any order, the masked one also after records that lie beyond its interval
    r_mask = random.Random(f'C12-masked-background-{ctx.seed}')
    extra = 0
    for _ in range(40 * n):
        if extra >= max(4, n // 8):
            break
        d = gen.gen_sge(r_mask, {'p_bg': 1.0, 'p_mask': 0.0, 'n_bg': [3, 4, 5], 'max_bg': 6, 'p_custom': 0.3, 'p_pam': 0.5, 'p_gtf': 0.8, 'p_table': 0.0,
                                 'bg_kinds': ['snv', 'snv', 'ins', 'del'], 'n_targetons': r_mask.choice([1, 2])})
        if len(d.get('bg') or []) >= 3:
            # the mask over the variant with the lowest position, and (below) one presentation that lists the records in descending order: the
            # masked record then comes after records that lie beyond its interval
            v0 = min(d['bg'], key=lambda r: r['pos'])
            s0 = v0['pos'] - 1 + (1 if len(v0['ref']) != len(v0['alts'][0]) else 0)
            d['mask'] = [[d['contig'], s0, s0 + 1]]
            d['_bg_desc'] = True
            designs.append(d)
            extra += 1
    # ... and a class whose custom VCF names its records by a multi-valued INFO tag (Number=.) carrying two or three values
    r_multi = random.Random(f'C12-multi-valued-id-{ctx.seed}')
    extra = 0
    for _ in range(40 * n):
        if extra >= max(3, n // 12):
            break
        d = gen.gen_sge(r_multi, {'p_bg': 0.0, 'p_custom': 1.0, 'p_pam': 0.3, 'p_gtf': 0.5, 'p_table': 0.0, 'custom_kinds': ['snv', 'snv', 'mnv', 'ins', 'del'], 'n_custom': [3, 5]})
        f0 = next((f for f in d.get('vcfs') or [] if f.get('id_tag') and f['records']), None)
        if f0 is None:
            continue
        f0['id_number'] = '.'
        f0.pop('id_type', None)
        for k, rec in enumerate(f0['records']):
            rec['info'] = dict(rec.get('info') or {}, **{f0['id_tag']: ','.join(f'rs{r_multi.randint(100, 999)}' for _ in range(2 + k % 2))})
        designs.append(d)
        extra += 1
    seeds = ['0', '1', '2', str(3 + ctx.seed)]
    jobs, index = [], []
    for i, d in enumerate(designs):
        for s in seeds:
            jobs.append((d, 'subproc', {'PYTHONHASHSEED': s}))
            index.append((i, 'hashseed=' + s, None))
        if d.get('_bg_desc'):
            v = copy.deepcopy(d)
            v['bg'] = sorted(v['bg'], key=lambda r: -r['pos'])
            jobs.append((v, 'inproc', None))
            index.append((i, 'presentation', v))
        vr = random.Random(f'{ctx.seed}:{i}')
        for k in range(ctx.n(4, 6)):
            v, what = variant_of(d, vr)
            rb = random.Random(f'bom:{ctx.seed}:{i}:{k}')      # own generator state: a byte-order mark at the start of some of the text inputs
            if v['mode'] == 'sge' and rb.random() < 0.5:
                v['bom'] = [x for x in ('targetons', 'gtf', 'manifest', 'mask') if rb.random() < 0.5]
            jobs.append((v, 'inproc', None))
            index.append((i, 'presentation', v))
    results = pool_map(run_case, jobs, chunksize=1)
    base = {}
    for (i, kind, v), r in zip(index, results):
        d = designs[i]
        ctx.evaluations += 1
        ctx.count('runs_' + kind.split('=')[0])
        if i not in base:
            base[i] = r
            if r['exit'] != 0:
                ctx.count('base_run_refused')
            elif r['files']:
                ctx.nontriv(('det', i))
            continue
        b = base[i]
        if r['exit'] != b['exit']:
            ctx.violation('spec_violation', f"{d['mode']} design: exit {b['exit']} under hashseed=0, exit {r['exit']} ({r['exc']} {r['msg'][:60]}) under {kind}",
                          {'surface': 'file', 'design': d, 'variant': v, 'kind': kind})
            continue
        if b['exit'] != 0:
            continue     # a refused run stops at the offending targeton: which files exist then depends on the row order (outside C12, see C13/C19)
        df = first_diff(b['files'], r['files'])
        if df:
            ctx.violation('spec_violation', f"{d['mode']} design: outputs differ between hashseed=0 and {kind}: {df}",
                          {'surface': 'file', 'design': d, 'variant': v, 'kind': kind, 'diff': df})
    ctx.sample({'design_targetons': designs[0]['targetons'], 'runs_per_design': len(seeds) + ctx.n(4, 6)})
    fd_check(ctx, [d for d in designs if d['mode'] == 'sge'][:ctx.n(20, 120)])
    # negative control: a swapped pair of lines must be noticed by the comparison
    for i, b in list(base.items())[:3]:
        for k, txt in b['files'].items():
            ls = txt.split('\n')
            if k.endswith('_meta.csv') and len(ls) > 4:
                ls[1], ls[2] = ls[2], ls[1]
                ctx.controls['run'] += 1
                if first_diff(b['files'], dict(b['files'], **{k: '\n'.join(ls)})):
                    ctx.controls['rejected'] += 1
                break
    if ctx.controls['run'] != ctx.controls['rejected']:
        ctx.violation('control', 'comparison accepted swapped lines', broken='negative control', no_input=True)


def parse_list_tie(ctx: Ctx):
    """The model of loaders/utils.parse_list against the real function (S-api) on vectors written with blanks, tabs, empty pieces."""
    from ..runner import coq_eval, coq_list, coq_str
    common.use_repo()
    from valiant.loaders.utils import parse_list
    rng = ctx.rng
    exprs, cases = [], []
    items = ['snv', '1del', '2del0', 'sg1', 'a b', 'x', 'ala', '3', '0', 'snv re']
    for _ in range(ctx.n(300, 3000)):
        k = rng.randint(0, 5)
        parts = []
        for _i in range(k):
            it = rng.choice(items + ['', '', ' ', '\t'])
            parts.append(' ' * rng.randint(0, 2) + ('\t' if rng.random() < 0.1 else '') + it + ' ' * rng.randint(0, 2))
        sv = ','.join(parts)
        got = parse_list(sv)
        ctx.evaluations += 1
        exprs.append(f'list_eqb String.eqb (parse_list {coq_str(sv)}) {coq_list(coq_str(x) for x in got)}')
        cases.append(sv)
    bad, err = coq_eval(['Model.Base', 'Model.ParseList'], exprs)
    ctx.corr['cases'] += len(exprs)
    if err:
        ctx.violation('correspondence', 'model evaluation failed: ' + err[:300], broken='coqc cases (C12 parse_list)', no_input=True)
    for i in bad:
        ctx.corr['disagreements'] += 1
        ctx.violation('correspondence', f'parse_list({cases[i]!r}): model differs from the implementation', {'string': cases[i]},
                      broken='correspondence S-api loaders.utils.parse_list')


def parse_mutators_tie(ctx: Ctx):
    """The model of base_targeton_config.parse_mutators (codes parsed, duplicates removed before and after parsing) against the real function."""
    from ..runner import coq_eval, coq_list, coq_str
    common.use_repo()
    from valiant.loaders.base_targeton_config import parse_mutators
    from valiant.mutator_type import MutatorType
    rng = ctx.rng
    items = ['snv', 'snvre', '1del', '1del0', '2del', '2del0', '2del1', '3del', '3del0', '3del2', '02del0', '2del00', 'ala', 'stop', 'aa', 'inframe',
             'del', '0del', 'snvx', 'Snv', '2 del0', '']

    def coq_kind(m) -> str:
        if m.type == MutatorType.DEL:
            return f'(MDelK {m.pt.span} {m.pt.offset})'
        return {'snv': 'MSnv', 'snvre': 'MSnvRe', 'inframe': 'MInframe', 'ala': 'MAla', 'stop': 'MStop', 'aa': 'MAa'}[m.type.value]

    exprs, cases = [], []
    for _ in range(ctx.n(300, 3000)):
        parts = [' ' * rng.randint(0, 2) + rng.choice(items) + ' ' * rng.randint(0, 1) for _i in range(rng.randint(0, 5))]
        sv = ','.join(parts)
        try:
            got = 'Ok ' + coq_list(coq_kind(m) for m in parse_mutators(sv))
        except Exception as ex:
            got = 'Err InvalidMutator' if type(ex).__name__ == 'InvalidMutator' else 'Err OtherErr'
        ctx.evaluations += 1
        exprs.append(f'res_eqb (list_eqb mkind_eqb) (parse_mutators {coq_str(sv)}) ({got})')
        cases.append(sv)
    ctx.count('parse_mutators_cases', len(cases))
    bad, err = coq_eval(['Model.Base', 'Model.Pattern', 'Model.Mutators', 'Model.ParseList', 'Model.Refusal', 'Model.ParseMutators'], exprs)
    ctx.corr['cases'] += len(exprs)
    if err:
        ctx.violation('correspondence', 'model evaluation failed: ' + err[:300], broken='coqc cases (C12 parse_mutators)', no_input=True)
    for i in bad:
        ctx.corr['disagreements'] += 1
        ctx.violation('correspondence', f'parse_mutators({cases[i]!r}): model differs from the implementation', {'string': cases[i]},
                      broken='correspondence S-api loaders.base_targeton_config.parse_mutators')


def run(ctx: Ctx):
    explore(ctx)
    parse_list_tie(ctx)
    parse_mutators_tie(ctx)
    return {'rule': 'Each random SGE/cDNA design (ties on every prefix of the ORDER BY key: snvre/aa/ala/stop on the same codons, custom '
                    'records sharing position and id in several files) is run as a subprocess under PYTHONHASHSEED 0,1,2,3+seed and '
                    'in-process in 4-6 other presentations (targeton rows, PAM/custom/background records, manifest, GTF and annotation '
                    'lines permuted; vector items permuted, repeated, re-spaced; reference and allele letter case changed); every '
                    'per-targeton output file is compared byte for byte with the first run. The functional-dependency hypothesis of '
                    'C12_meta_order_total is checked on the MetaRows of each targeton. Non-trivial = a design whose base run wrote files.',
            'assumptions': ['CPython set/dict iteration and SQLite row order are some permutation of the content (not modelled; exercised by the hash-seed runs)']}


def replay(ctx: Ctx, path: str) -> int:
    with open(path) as fh:
        v = json.load(fh)
    case = v.get('case', {})
    if 'design' not in case:
        print('replay: nothing to run (obligation-only replay file)')
        return 0
    common.use_repo()
    d = case['design']
    a = run_case((d, 'subproc', {'PYTHONHASHSEED': '0'}))
    kind = case.get('kind', '')
    if kind.startswith('hashseed='):
        b = run_case((d, 'subproc', {'PYTHONHASHSEED': kind.split('=')[1]}))
    elif case.get('variant'):
        b = run_case((case['variant'], 'inproc', None))
    elif 'rows' in case:
        fd_check(ctx, [d])
        b = a if not ctx.violations else None
    else:
        b = a
    if b is None or a['exit'] != b['exit'] or first_diff(a['files'], b['files']):
        print(f'VIOLATION property=C12 replay={path}')
        return 1
    print('replay: property holds on this input now')
    return 0
