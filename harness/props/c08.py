"""C08 - custom VCF variants are imported faithfully, whatever their VCF representation."""
from __future__ import annotations

import itertools
import copy
import json
from types import SimpleNamespace

from .. import common, gen, sge
from ..runner import Ctx, coq_eval, coq_dna, coq_list, coq_opt, coq_str, coq_z, pool_map

IMPORTS = ['Model.Base', 'Model.Pattern', 'Model.Seq', 'Model.Vcf', 'Model.Import']
TYPES = {0: 'VIns', 1: 'VDel', 2: 'VSub', 3: 'VUnknown'}
CLASSES = {0: 'Classified', 1: 'Unclassified', 2: 'Monomorphic'}


def splice1(t: str, start: int, pos: int, ref: str, alt: str) -> str:
    o = pos - start
    return t[:o] + alt + t[o + len(ref):]


def reported(pos: int, ref: str, alt: str):
    """README: pure insertions/deletions are shifted right by one without the anchor; others as given."""
    if pos > 1 and len(ref) == 1 and len(alt) > 1 and alt[0] == ref:
        return pos + 1, '', alt[1:]
    if pos > 1 and len(alt) == 1 and len(ref) > 1 and ref[0] == alt:
        return pos + 1, ref[1:], ''
    return pos, ref, alt


def api_case(args):
    pos, ref, alt = args
    from valiant.custom_variant import CustomVariant
    r = SimpleNamespace(ref=ref, alts=(alt,) if alt is not None else None, pos=pos, contig='chr1')
    try:
        c = CustomVariant.from_record_with_id('id', r)
        return ('ok', (c.pos, str(c.ref), str(c.alt), c.vcf_nt, int(c.var_type), int(c.var_class)))
    except ValueError:
        return ('err', 'ValueError')
    except AssertionError:
        return ('err', 'AssertionError')
    except Exception as ex:
        return ('err', 'OtherErr:' + type(ex).__name__)


def coq_custom(r) -> str:
    if r[0] == 'err':
        return f'(Err {r[1] if r[1] in ("ValueError", "AssertionError") else "OtherErr"})'
    p, ref, alt, nt, t, c = r[1]
    return f'(Ok (mkCustom (mkVar {coq_z(p)} {coq_dna(ref)} {coq_dna(alt)}) {coq_opt(nt)} {TYPES[t]} {CLASSES[c]}))'


def sweep(ctx: Ctx):
    L = 3 if ctx.quick() else 4
    alleles = [''.join(x) for n in range(1, L + 1) for x in itertools.product('AC', repeat=n)]
    cases = [(pos, r, a) for pos in (1, 2, 5) for r in alleles for a in alleles + [None]]
    template = 'ACCAACACCA' * 2
    common.use_repo()
    res = [api_case(c) for c in cases]
    exprs = []
    for (pos, ref, alt), r in zip(cases, res):
        exprs.append(f'res_eqb custom_eqb (from_record {pos} {coq_dna(ref)} {coq_opt(coq_dna(alt) if alt is not None else None)}) {coq_custom(r)}')
        ctx.evaluations += 1
        if alt is None or ref == alt:
            continue
        # effect preservation on a template that carries REF at POS (template starts at position 1)
        t = template[:pos - 1] + ref + template[pos - 1 + len(ref):]
        exp = splice1(t, 1, pos, ref, alt)
        if r[0] != 'ok':
            ctx.violation('spec_violation', f'record {pos} {ref}>{alt} refused: {r}', {'surface': 'api', 'record': [pos, ref, alt], 'impl': r})
            continue
        ctx.nontriv((pos, ref, alt))
        p, nr, na, nt, ty, cl = r[1]
        got = t[:p - 1] + na + t[p - 1 + len(nr):]
        if got != exp:
            ctx.violation('spec_violation', f'record {pos} {ref}>{alt} imported as {p} {nr or "-"}>{na or "-"}: effect {got} != {exp}',
                          {'surface': 'api', 'kind': 'normalise_effect', 'record': [pos, ref, alt], 'impl': r[1]})
        elif pos > 1 and (p, nr, na) != reported(pos, ref, alt):
            ctx.violation('spec_violation', f'record {pos} {ref}>{alt} reported as {p} {nr or "-"}>{na or "-"}, documented {reported(pos, ref, alt)}',
                          {'surface': 'api', 'kind': 'reported_form', 'record': [pos, ref, alt], 'impl': r[1]})
    bad, err = coq_eval(IMPORTS, exprs, chunk=400)
    ctx.corr['cases'] += len(exprs)
    if err:
        ctx.violation('correspondence', 'model evaluation failed: ' + err[:300], broken='coqc cases (C08 sweep)', no_input=True)
    for i in bad[:30]:
        ctx.corr['disagreements'] += 1
        ctx.violation('correspondence', f'from_record differs from the model for {cases[i]}: impl {res[i]}',
                      {'surface': 'api', 'record': list(cases[i]), 'impl': res[i]}, broken='correspondence S-api CustomVariant.from_record_with_id')
    ctx.sample({'record(pos,ref,alt)': cases[40], 'impl': res[40]})
    ctl = [e.replace('mkVar 2 ', 'mkVar 3 ', 1) for e in exprs if 'mkVar 2 ' in e][:3]
    badc, _ = coq_eval(IMPORTS, ctl)
    ctx.controls['run'] += len(ctl)
    ctx.controls['rejected'] += len(badc)
    if len(badc) != len(ctl):
        ctx.violation('control', 'comparator accepted a perturbed case', broken='negative control', no_input=True)


# ---------------- file surface
def regions_of(t):
    a, b = t['r2_start'], t['r2_end']
    e1, e3 = t['ext']
    out = [(a, b)]
    if e1:
        out.append((a - e1, a - 1))
    if e3:
        out.append((b + 1, b + e3))
    return out


def design_case(d):
    return d, sge.run_design(d)


def check_design(ctx: Ctx, d: dict, r: dict, exprs: list, meta: list):
    if r['exit'] != 0:
        ctx.violation('spec_violation', f"valid design refused: exit {r['exit']} {r['exc']} {r['exc_msg'][:80]}",
                      {'surface': 'file', 'design': d, 'kind': 'refused'})
        return
    rc = d['opts'].get('revcomp') and d['strand'] == '-'
    a5, a3 = d['opts'].get('adaptor5') or '', d['opts'].get('adaptor3') or ''
    for t in d['targetons']:
        name = sge.sge_targeton_name(d['contig'], d['strand'], t)
        rows = [x for x in sge.all_meta_rows(r['files'], name) if x['mutator'] == 'custom']
        exp = []
        for v in d.get('vcfs') or []:
            for rec in v['records']:
                if rec.get('contig', d['contig']) != d['contig'] or not rec.get('alts'):
                    continue
                ref, alt = rec['ref'].upper(), rec['alts'][0].upper()
                p, nr, na = reported(rec['pos'], ref, alt)
                end = p + max(0, len(nr) - 1)
                if not (t['ref_start'] <= p and end <= t['ref_end']):
                    continue
                vid = (rec.get('info') or {}).get(v['id_tag']) if v.get('id_tag') else rec.get('id')
                in_const = 0 if any(s <= p <= e for s, e in regions_of(t)) else 1
                exp.append({'alias': v['alias'], 'id': vid or '', 'pos': p, 'ref_len': len(nr), 'new': na, 'in_const': in_const,
                            'raw': (rec['pos'], ref, alt)})
        # the row set of each VCF through the model of the import (contig filter, monomorphic skip, range selection on the normalised span)
        for v in d.get('vcfs') or []:
            if any(rec['pos'] < 2 for rec in v['records']):
                continue
            recs = coq_list(f"mkRec {coq_str(rec.get('contig', d['contig']))} {rec['pos']} {coq_dna(rec['ref'].upper())} "
                            f"{coq_opt(coq_dna(rec['alts'][0].upper()) if rec.get('alts') else None)}" for rec in v['records'])
            impl = coq_list(f"({int(x['mut_position'])}, {len(x['ref'])}, {coq_dna(x['new'])})" for x in rows if x['vcf_alias'] == v['alias'])
            exprs.append(f"imported_agree (import_records {coq_str(d['contig'])} (mkRange {t['ref_start']} {t['ref_end']}) {recs}) {impl}")
            meta.append((d, t, f"row set of {v['alias']}"))
        ctx.evaluations += 1
        if exp:
            ctx.nontriv((common.sha(d), name))
        key = lambda x: (x['alias'], x['id'], x['pos'], x['ref_len'], x['new'])
        got_keys = sorted((x['vcf_alias'], x['vcf_var_id'], int(x['mut_position']), len(x['ref']), x['new']) for x in rows)
        exp_keys = sorted(key(x) for x in exp)
        if got_keys != exp_keys:
            missing = [k for k in exp_keys if k not in got_keys][:3]
            extra = [k for k in got_keys if k not in exp_keys][:3]
            ctx.violation('spec_violation', f'custom rows: missing {missing} unexpected {extra}',
                          {'surface': 'file', 'design': d, 'targeton': t, 'kind': 'row_set', 'missing': missing, 'extra': extra})
            continue
        for e in exp:
            cand = [x for x in rows if (x['vcf_alias'], x['vcf_var_id'], int(x['mut_position']), len(x['ref']), x['new']) == key(e)]
            row = cand[0]
            ctx.count('kind:' + ('ins' if e['ref_len'] == 0 else 'del' if e['new'] == '' else 'sub/delins'))
            tpl = row['pam_seq']
            o = row['mseq_no_adapt']
            if rc:
                o = common.revcomp(o)
            # REF -> ALT at POS on the record's minimal form: for a pure insertion/deletion the shared anchor base is not part
            # of the change (so a PAM edit on the anchor base stays protected); every other record is replaced as given
            exp_oligo = splice1(tpl, t['ref_start'], e['pos'], 'N' * e['ref_len'], e['new'])
            if o != exp_oligo:
                ctx.violation('spec_violation', f"custom record {e['raw']}: oligo is not the template with REF replaced by ALT at POS",
                              {'surface': 'file', 'design': d, 'targeton': t, 'kind': 'oligo', 'record': e['raw'], 'got': o, 'expected': exp_oligo})
            if row['mseq'] != a5 + row['mseq_no_adapt'] + a3:
                ctx.violation('spec_violation', 'mseq is not adaptor5 + mseq_no_adapt + adaptor3', {'surface': 'file', 'design': d, 'kind': 'adaptors'})
            if int(row['vcf_var_in_const']) != e['in_const']:
                ctx.violation('spec_violation', f"custom record {e['raw']}: vcf_var_in_const={row['vcf_var_in_const']}, expected {e['in_const']}",
                              {'surface': 'file', 'design': d, 'targeton': t, 'kind': 'in_const', 'record': e['raw']})
            if row['ref'] != tpl[e['pos'] - t['ref_start']:e['pos'] - t['ref_start'] + e['ref_len']]:
                ctx.violation('spec_violation', f"custom record {e['raw']}: ref column {row['ref']} is not the template at {e['pos']}",
                              {'surface': 'file', 'design': d, 'targeton': t, 'kind': 'ref_col', 'record': e['raw']})
            # the model on the same record and template
            pos, ref, alt = e['raw']
            exprs.append(f'match from_record {pos} {coq_dna(ref)} (Some {coq_dna(alt)}) with Ok c => '
                         f'variant_eqb (cu_var c) (mkVar {e["pos"]} {coq_dna(row["ref"] if row["ref"] == ref[len(ref) - e["ref_len"]:] or e["ref_len"] == 0 else ref[len(ref) - e["ref_len"]:])} {coq_dna(e["new"])}) && '
                         f'res_eqb dna_eqb (alter (mkSeq {t["ref_start"]} {coq_dna(tpl)}) (cu_var c)) (Ok {coq_dna(o)}) | Err _ => false end')
            meta.append((d, t, e['raw']))


def one_base_constant_regions(rng, d: dict) -> None:
    """Cut a targeton so that its constant regions are exactly one base long, and put records on those two bases: a substitution on the
    base, an insertion and a deletion anchored on the base before it (reported on it)."""
    U = d['ref'].upper()
    t = rng.choice(d['targetons'])
    lo, hi = t['r2_start'] - t['ext'][0] - 1, t['r2_end'] + t['ext'][1] + 1
    if lo < 3 or hi > len(U) - 3 or any(x is not t and (x['ref_start'], x['ref_end']) == (lo, hi) for x in d['targetons']):
        return
    t['ref_start'], t['ref_end'] = lo, hi
    if not d.get('vcfs'):
        return
    recs = d['vcfs'][0]['records']
    other = lambda c: rng.choice([x for x in 'ACGT' if x != c])
    for p in (lo, hi):
        k = rng.choice(['snv', 'ins', 'del'])
        if k == 'snv':
            rec = {'pos': p, 'ref': U[p - 1], 'alts': [other(U[p - 1])]}
        elif k == 'ins':
            rec = {'pos': p - 1, 'ref': U[p - 2], 'alts': [U[p - 2] + gen.rand_dna(rng, rng.randint(1, 3))]}
        else:
            if p != lo:
                continue          # a deletion of the last base only
            rec = {'pos': p - 1, 'ref': U[p - 2:p], 'alts': [U[p - 2]]}
        rec.update(id=f'edge{p}', kind=k)
        if d['vcfs'][0].get('id_tag'):
            rec['info'] = {d['vcfs'][0]['id_tag']: str(5000 + p)}
        recs.append(rec)
    recs.sort(key=lambda r: (r.get('contig', d['contig']) != d['contig'], r['pos']))


def files(ctx: Ctx):
    n = ctx.n(120, 1500)
    focus = {'p_bg': 0.0, 'p_custom': 1.0, 'p_pam': 0.3, 'allow_junction_pam': False,
             'custom_kinds': ['snv', 'mnv', 'ins', 'ins', 'del', 'del', 'delins_u', 'delins_a', 'padded', 'mono', 'multi'],
             'n_custom': [1, 2, 3, 5, 8], 'p_lower': 0.25, 'int_id_tags': True}
    designs = [gen.gen_sge(ctx.rng, focus) for _ in range(n)]
    for i, d in enumerate(designs):
        if i % 4 == 2:
            one_base_constant_regions(ctx.rng, d)
        if i % 4 == 0 and d.get('vcfs') and d['vcfs'][0]['records'] and not d.get('extra_contigs'):
            # the first custom VCF compressed and indexed (bgzip + tabix): the same records must be reported (sorted by position, as an index requires)
            d['vcfs'][0]['records'].sort(key=lambda r: (r.get('contig', d['contig']) != d['contig'], r['pos']))
            d['vcfs'][0]['indexed'] = True
        if i % 4 == 3 and d.get('vcfs') and d['vcfs'][0]['records']:
            # the same record twice in one file (same identifier, or none): two records, two rows
            import random
            r3 = random.Random(f'C08-dup-{ctx.seed}-{i}')
            f0 = d['vcfs'][0]
            rec = copy.deepcopy(r3.choice(f0['records']))
            if r3.random() < 0.4:
                rec['ref'] = rec['ref'].lower()
            f0['records'].append(rec)
            f0['records'].sort(key=lambda r: (r.get('contig', d['contig']) != d['contig'], r['pos']))
        if i % 4 == 1 and d.get('vcfs'):
            # the deletion of a complete targeton (anchored on the base before it): its oligonucleotide is empty, the record is still reported
            import random
            r2 = random.Random(f'C08-whole-{ctx.seed}-{i}')
            t = r2.choice(d['targetons'])
            U = d['ref'].upper()
            s_, e_ = t['ref_start'], t['ref_end']
            if s_ >= 3:
                ref = U[s_ - 2:e_]
                rec = {'pos': s_ - 1, 'ref': ref if r2.random() < 0.7 else ref.lower(), 'alts': [U[s_ - 2]], 'id': f'whole{s_}', 'kind': 'del'}
                if d['vcfs'][0].get('id_tag'):
                    rec['info'] = {d['vcfs'][0]['id_tag']: str(7000 + s_)}
                d['vcfs'][0]['records'].append(rec)
                d['vcfs'][0]['records'].sort(key=lambda r: (r.get('contig', d['contig']) != d['contig'], r['pos']))
    exprs, meta = [], []
    for d, r in pool_map(design_case, designs):
        check_design(ctx, d, r, exprs, meta)
    ctx.sample({'vcfs': designs[0].get('vcfs'), 'targetons': designs[0]['targetons']})
    bad, err = coq_eval(IMPORTS, exprs)
    ctx.corr['cases'] += len(exprs)
    if err:
        ctx.violation('correspondence', 'model evaluation failed: ' + err[:300], broken='coqc cases (C08 files)', no_input=True)
    for i in bad[:30]:
        ctx.corr['disagreements'] += 1
        d, t, raw = meta[i]
        ctx.violation('correspondence', f'custom row of record {raw} differs from the model',
                      {'surface': 'file', 'design': d, 'targeton': t, 'record': raw}, broken='correspondence S-file custom rows (C08)')


    # negative control: an implementation that drops every row of a VCF must be rejected
    ctl = [e[:e.rindex(') [') + 2] + '[]' for e in exprs if e.startswith('imported_agree') and not e.endswith(' []')][:3]
    if ctl:
        badc, _ = coq_eval(IMPORTS, ctl)
        ctx.controls['run'] += len(ctl)
        ctx.controls['rejected'] += len(badc)
        if len(badc) != len(ctl):
            ctx.violation('control', 'comparator accepted an emptied row set', broken='negative control', no_input=True)


def bg_accept(kind: str, what: str) -> bool:
    return 'custom' in what and kind.startswith(('row_extra', 'row_missing', 'row_not_dropped', 'row_columns:ref', 'row_columns:new', 'row_columns:vcf_var_in_const',
                                                   'row_columns:vcf_alias', 'row_columns:vcf_var_id', 'row_columns:mseq', 'mut_position'))


def run(ctx: Ctx):
    sweep(ctx)
    files(ctx)
    # custom variants are given in REF coordinates; with background variants they are lifted before being applied and reported back in REF
    # coordinates: checked through the relation with the same design on the pre-edited genome (C06's metamorphic pair), custom rows only
    from . import c06
    c06.background_stage(ctx, ctx.n(60, 600), bg_accept,
                         focus_over={'bg_on_custom': 0.8, 'p_custom': 1.0, 'custom_kinds': ['snv', 'mnv', 'ins', 'ins', 'ins', 'del', 'del', 'delins_u']})
    return {'rule': 'S-api: every record with REF, ALT over {A,C} of length <=3 (quick) / <=4 (thorough) at POS 1, 2, 5, plus monomorphic, through the real '
                    'CustomVariant.from_record_with_id; compared with the Coq model, with effect preservation on a template and with the documented reported form. '
                    'S-file: random designs with SNV/MNV/anchored ins/del/anchored and unanchored delins/padded/monomorphic/multi-allelic/lower-case records in 1-3 '
                    'manifest entries (with and without INFO id tags), inside and outside the targeton: exact row set per targeton, oligo = template with REF->ALT at POS, '
                    'in_const, ref column; each row also evaluated through the model. Non-trivial = polymorphic record (api) / targeton with at least one expected custom row.'}


def replay(ctx: Ctx, path: str) -> int:
    with open(path) as fh:
        v = json.load(fh)
    c = v.get('case', {})
    if c.get('via') == 'background_pair':
        from . import c06
        common.use_repo()
        if c06.replay_background(ctx, c, bg_accept):
            print(f'VIOLATION property=C08 replay={path}')
            return 1
        print('replay: property holds on this input now')
        return 0
    common.use_repo()
    if c.get('surface') == 'api' and 'record' in c:
        pos, ref, alt = c['record']
        r = api_case((pos, ref, alt))
        bad = r[0] != 'ok'
        if not bad and alt is not None:
            t = ('ACCAACACCA' * 2)
            t = t[:pos - 1] + ref + t[pos - 1 + len(ref):]
            p, nr, na = r[1][:3]
            bad = t[:p - 1] + na + t[p - 1 + len(nr):] != splice1(t, 1, pos, ref, alt) or (pos > 1 and (p, nr, na) != reported(pos, ref, alt))
    elif 'design' in c:
        d, r = design_case(c['design'])
        check_design(ctx, d, r, [], [])
        bad = bool(ctx.violations)
    else:
        print('replay: obligation-only replay file')
        return 0
    if bad:
        print(f'VIOLATION property=C08 replay={path}')
        return 1
    print('replay: property holds on this input now')
    return 0
