"""C09 - output VCF records are valid against their reference and reproduce the oligo."""
from __future__ import annotations

import json

from .. import bg, common, gen, rowcheck, rowspec, sge
from ..runner import Ctx

KINDS_KNOWN = {}


def check_results(ctx: Ctx, results):
    for d, r in results:
        if r['exit'] != 0:
            continue
        L = None
        if d.get('bg'):
            # background variants: the protected sequence is in background coordinates; the independent cell-map liftover reads POS
            L = bg.Lift(d['ref'].upper(), bg.unmasked_variants(d))
        for t in r['targetons']:
            if not t['sge']:
                # cDNA: no VCF files at all
                if any(fn.startswith(t['name']) and fn.endswith('.vcf') for fn in r['files']):
                    ctx.violation('spec_violation', 'VCF file written in cDNA mode', {'surface': 'file', 'kind': 'cdna_vcf', 'design': d})
                continue
            name = t['name']
            n_inc = sum(1 for m, row, r1, r2 in t.get('pairs', []) if row['_included'])
            noop_inc = 0
            if name + '_meta.csv' in r['files']:
                noop_inc = sum(1 for x in sge.parse_meta(r['files'][name + '_meta.csv'])[1] if x['mut_position'] == '-1')
            for suf in ('_ref.vcf', '_pam.vcf'):
                nrec = len(sge.parse_vcf(r['files'][name + suf])[1]) if name + suf in r['files'] else 0
                ctx.evaluations += 1
                if nrec != n_inc:
                    ctx.violation('spec_violation', f'{name}{suf}: {nrec} records for {n_inc} included mutation rows',
                                  {'surface': 'file', 'kind': 'record_count', 'design': d, 'targeton': name})
            for m, row, r1, r2 in t.get('pairs', []):
                if not row['_included']:
                    continue
                ctx.evaluations += 1
                near_pam = m['start_ppe_start'] is not None or m['end_ppe_start'] is not None
                if near_pam or not m['ref'] or not m['alt']:
                    ctx.nontriv((common.sha(d), name, row['oligo_name'], row['mut_position'], row['new']))
                ctx.count('vt:' + ('ins' if not row['ref'] else 'del' if not row['new'] else 'sub') + (':pam' if near_pam else ''))
                if L is not None:
                    if L.ref_touches(int(row['mut_position']), len(row['ref'])):
                        continue        # whether such a row exists at all is C06's relation (and its known finding)
                    ctx.count('rows_under_background')
                for kind, msg in rowspec.check_vcf(row, r1, r2, t['seq']['prev'], t['alt']['prev'], t['rc'], lift=L, bg=L is not None):
                    pam_pos = sorted(p['pos'] for p in (d.get('pam') or []))
                    ctx.violation('spec_violation', f'{kind}: {msg}',
                                  {'surface': 'file', 'kind': kind, 'design': d, 'targeton': name, 'metarow': m, 'vcf_ref': r1, 'vcf_pam': r2,
                                   'row': {k: row[k] for k in ('oligo_name', 'mut_position', 'ref', 'new', 'mutator', 'ref_start')}})


def files(ctx: Ctx):
    n = ctx.n(100, 1200)
    focus = {'p_bg': 0.0, 'p_custom': 0.7, 'p_pam': 0.9, 'allow_junction_pam': False, 'n_pam': [1, 2, 3, 4],
             'custom_kinds': ['snv', 'mnv', 'ins', 'ins', 'del', 'del', 'delins_u', 'delins_a'], 'p_gtf': 0.85}
    designs = [gen.gen_sge(ctx.rng, focus) for _ in range(n)]
    for i, d in enumerate(designs):
        if i % 6 == 0:     # length limits so that some rows are excluded (they must have no record)
            L = d['targetons'][0]['ref_end'] - d['targetons'][0]['ref_start'] + 1 + len(d['opts'].get('adaptor5') or '') + len(d['opts'].get('adaptor3') or '')
            d['opts']['max_length'] = L
            d['opts']['min_length'] = L - 1
    designs += [gen.gen_cdna(ctx.rng, {}) for _ in range(n // 10)]
    # a second, unannotated contig with a different sequence and a targeton at the coordinates of the first contig's: nothing of the first
    # contig (custom variants, PAM edits) may reach its records
    for d in designs[:n]:
        # (with --gff every contig and strand that has targetons must have a transcript: the tool asserts it - only designs without annotation)
        if ctx.rng.random() < 0.4 and d['mode'] == 'sge' and not d.get('gtf'):
            t0 = d['targetons'][0]
            d['extra_contigs'] = {'chr2': gen.rand_dna(ctx.rng, len(d['ref']))}
            d['targetons'].append(dict(t0, contig='chr2', action=['', ctx.rng.choice(['snv', '1del', 'snv, 1del', '2del0']), ''], sgrna=[]))
            for f in d.get('vcfs') or []:
                f['records'] = [r for r in f['records'] if r.get('contig', d['contig']) == d['contig']]
    # with background variants (SNVs anywhere, indels in non-coding sequence, upstream of and inside the targetons): the PAM VCF is read
    # through the liftover
    bfocus = dict(focus, p_bg=1.0, p_mask=0.2, bg_upstream=True, bg_kinds=['snv', 'ins', 'ins', 'del', 'del', 'mnv'], p_custom=0.8)
    nb = 0
    for _ in range(20 * n):
        if nb >= n // 3:
            break
        d = gen.gen_sge(ctx.rng, bfocus)
        if d.get('bg') and bg.lift_design(d) is not None:
            designs.append(d)
            nb += 1
    # a deliberate class (own generator state): a background substitution on the base before a targeton and a custom insertion / deletion on the
    # targeton's first base - the anchor of its PAM VCF record is that base as the background carries it, not the one the user's VCF gives
    import random
    r2 = random.Random(f'C09-anchor-before-targeton-{ctx.seed}')
    ne = 0
    for _ in range(40 * n):
        if ne >= max(4, n // 12):
            break
        d = gen.gen_sge(r2, dict(focus, p_custom=1.0, p_pam=0.5))
        if not d.get('vcfs'):
            continue
        U = d['ref'].upper()
        t = r2.choice(d['targetons'])
        s_ = t['ref_start']
        used = {x for f in d['vcfs'] for r in f['records'] for x in range(r['pos'] - 1, r['pos'] + len(r['ref']) + 1)}
        if s_ < 4 or (set(range(s_ - 2, s_ + 4)) & used) or any(x is not t and x['ref_start'] <= s_ + 3 and s_ - 2 <= x['ref_end'] for x in d['targetons']):
            continue
        anchor = U[s_ - 2]
        rec = ({'pos': s_ - 1, 'ref': anchor, 'alts': [anchor + gen.rand_dna(r2, r2.randint(1, 3))], 'kind': 'ins'} if r2.random() < 0.5 else
               {'pos': s_ - 1, 'ref': U[s_ - 2:s_ - 1 + r2.randint(1, 2)], 'alts': [anchor], 'kind': 'del'})
        rec['id'] = f'first{s_}'
        if d['vcfs'][0].get('id_tag'):
            rec['info'] = {d['vcfs'][0]['id_tag']: f'first{s_}'}
        d['vcfs'][0]['records'].append(rec)
        d['vcfs'][0]['records'].sort(key=lambda r: (r.get('contig', d['contig']) != d['contig'], r['pos']))
        d['bg'] = [{'pos': s_ - 1, 'ref': anchor, 'alts': [r2.choice([c for c in 'ACGT' if c != anchor])], 'id': 'bgbefore'}]
        d.pop('mask', None)
        if bg.lift_design(d) is not None:
            designs.append(d)
            ne += 1
    results = rowcheck.run_designs(designs)
    rowcheck.model_rows(ctx, results, 'VCF records', fields=['vcf_ref', 'vcf_pam', 'included'])
    check_results(ctx, results)
    ctx.sample({'targetons': designs[0]['targetons'], 'pam': designs[0].get('pam')})


def mk(kind):
    return lambda c: c.get('kind') == kind


def record_at_contig_start(c: dict) -> bool:
    recs = [c.get('vcf_ref'), c.get('vcf_pam')]
    return c.get('kind') in ('vcf_ref_alt', 'vcf_pam_alt', 'vcf_ref_alt_anchor', 'vcf_pam_alt_anchor', 'vcf_ref_ref_mismatch', 'vcf_pam_ref_mismatch',
                             'vcf_ref_ref_mismatch_anchor', 'vcf_pam_ref_mismatch_anchor', 'vcf_sge_ref') and \
        any(r is not None and r['pos'] <= 2 for r in recs) and int(c['row']['mut_position']) in (2, 3) and (not c['row']['ref'] or not c['row']['new'])


MATCHERS = {'record_at_contig_start': record_at_contig_start}


def run(ctx: Ctx):
    files(ctx)
    return {'rule': 'S-file: random SGE designs rich in PAM edits (1-4 per targeton, any codon position relative to the mutations), custom insertions/deletions/'
                    'delins and length limits that exclude some rows: every row compared with the Coq model of the to_csv loop body on the recorded MetaRow (both VCF '
                    'records, inclusion) and checked by an independent oracle: one record per included row per file, SGE_OLIGO/SGE_SRC/alias/id tags, non-empty '
                    'alleles, REF = sequence at POS (incl. the preceding nucleotide), REF->ALT reproduces the oligo / the mutated reference, SGE_REF iff different; '
                    'a third as many designs carry background variants (SNVs anywhere, non-coding indels upstream of and inside the targetons): there POS is a '
                    'reference coordinate and the PAM record is read in the protected sequence through an independent cell-map liftover. '
                    'Non-trivial = indel row or row sharing a codon with a PAM edit.'}


def replay_known(ctx: Ctx, k: dict) -> bool:
    with open(common.VERIF + '/' + k['replay']) as fh:
        v = json.load(fh)
    res = rowcheck.run_designs([v['case']['design']])
    sub = Ctx('C09', ctx.tier, ctx.seed, None)
    sub.known = []
    rowcheck.model_rows(sub, res, fields=[])
    check_results(sub, res)
    return any(x['case'].get('kind') == v['case'].get('kind') for x in sub.violations)


def replay(ctx: Ctx, path: str) -> int:
    with open(path) as fh:
        v = json.load(fh)
    c = v.get('case', {})
    ctx.known = []
    if 'design' not in c:
        print('replay: obligation-only replay file')
        return 0
    res = rowcheck.run_designs([c['design']])
    rowcheck.model_rows(ctx, res, fields=[])
    check_results(ctx, res)
    if any(x['kind'] == 'spec_violation' for x in ctx.violations):
        print(f'VIOLATION property=C09 replay={path}')
        return 1
    print('replay: property holds on this input now')
    return 0
