"""C07 - PAM protection edits are applied and annotated exactly as requested."""
from __future__ import annotations

import json
import sqlite3

from .. import codoncheck as cc, common, gen, rowcheck, sge
from ..runner import Ctx, coq_bool, coq_dna, coq_eval, coq_list, coq_opt, coq_str, coq_z, pool_map

IMPORTS = ['Model.Base', 'Model.Pattern', 'Model.Views', 'Model.ViewsGlue']


# ---------------------------------------------------------------- S-api: the real DDL and queries on generated tables
def view_case(args):
    exons, ppes, muts = args          # exons: (start,end,index,prefix,suffix,fcs); ppes: (ref_start, t_start, sgrna); muts: (pos_a, ref)
    from valiant.db import init_db
    from valiant.meta_row import sql_select_meta
    from valiant.pam_variant import InvalidPamVariant
    from valiant.queries import insert_targeton_ppes
    from valiant.strings.dna_str import DnaStr
    from valiant.variant import RegisteredVariant
    conn = sqlite3.connect(':memory:')
    try:
        init_db(conn)
        cur = conn.cursor()
        cur.executemany('insert into exons(start,end,exon_index,cds_prefix_length,cds_suffix_length,first_codon_start) values(?,?,?,?,?,?)', exons)
        names = sorted(set(p[2] for p in ppes))
        for n in names:
            cur.execute('insert into sgrna_ids(name) values(?)', (n,))
        ids = []
        for rs, ts, sg in ppes:
            cur.execute('insert into pam_protection_edits(start,ref,alt) values(?,?,?)', (rs, 'A', 'C'))
            pid = cur.lastrowid
            ids.append(pid)
            cur.execute('insert into pam_protection_edit_sgrna_ids(var_ppe_id,sgrna_id) values(?,(select id from sgrna_ids where name=?))', (pid, sg))
        try:
            insert_targeton_ppes(conn, [RegisteredVariant(ts, DnaStr('A'), DnaStr('C'), pid) for pid, (rs, ts, sg) in zip(ids, ppes)])
        except InvalidPamVariant:
            return {'pk_error': True, 'ids': ids, 'rows': []}
        for k, (pos, ref) in enumerate(muts):
            cur.execute('insert into alt_pattern_variants(mutator,pos_r,pos_a,ref_a,alt_a,oligo) values(?,?,?,?,?,?)', (f'm{k:04d}', pos, pos, ref, 'T', 'ACGT'))
        rows = cur.execute(sql_select_meta).fetchall()
        by = {r[10]: r for r in rows}
        out = []
        for k, (pos, ref) in enumerate(muts):
            r = by[f'm{k:04d}']
            out.append({'ref_end': r[2], 'se': r[14], 'sc': r[15], 'sp': r[16], 'ee': r[17], 'ec': r[18], 'ep': r[19], 'ids': r[20]})
        return {'pk_error': False, 'ids': ids, 'rows': out, 'n_rows': len(rows)}
    finally:
        conn.close()


def gen_view_case(rng):
    strand = rng.choice('+-')
    exons, pos = [], rng.randint(5, 20)
    for i in range(rng.randint(1, 3)):
        ln = rng.randint(3, 14)
        exons.append([pos, pos + ln - 1])
        pos += ln + rng.randint(2, 9)
    order = exons if strand == '+' else list(reversed(exons))
    rows, frame = [], 0
    for idx, (s, e) in enumerate(order):
        pre = (3 - frame) % 3
        suf = (3 - ((e - s + 1) + pre) % 3) % 3
        fcs = s - pre if strand == '+' else e + pre
        rows.append((s, e, idx, pre, suf, fcs))
        frame = suf
    rows.sort()
    hi = exons[-1][1] + 6
    sgs = ['sg1', 'sg2', 'sgB', 'sGa'][:rng.randint(1, 4)]
    shift = rng.choice([0, 0, 0, 2, -1])
    ppes, used = [], set()
    for _ in range(rng.randint(0, 6)):
        p = rng.randint(2, hi)
        if p in used:
            continue
        used.add(p)
        ppes.append((p - shift, p, rng.choice(sgs)))
    muts = []
    for _ in range(rng.randint(3, 12)):
        p = rng.randint(2, hi)
        muts.append((p, rng.choice(['', 'A', 'A', 'AC', 'ACG', 'ACGTA', 'ACGTACGT'])))
    return rows, ppes, muts


def coq_view_expr(case, res) -> str:
    exons, ppes, muts = case
    ex = coq_list(f'mkExon {i + 1} {s} {e} {idx} {coq_z(fcs)}' for i, (s, e, idx, pre, suf, fcs) in enumerate(exons))
    ts = coq_list(f'mkTppe {pid} {coq_z(rs)} {coq_z(t)} {coq_str(sg)}' for pid, (rs, t, sg) in zip(res['ids'], ppes))
    oz = lambda x: coq_opt(coq_z(x) if x is not None else None)
    rows = coq_list(
        f'({coq_z(pos)}, {len(ref)}, mkJoin {coq_z(r["ref_end"])} {oz(r["se"])} {oz(r["sc"])} {oz(r["sp"])} {oz(r["ee"])} {oz(r["ec"])} {oz(r["ep"])} '
        f'{coq_list(coq_str(x) for x in (r["ids"].split(";") if r["ids"] else []))})'
        for (pos, ref), r in zip(muts, res['rows']))
    return f'view_check {ex} {ts} {coq_bool(res["pk_error"])} {rows}'


def spec_ids(exons, ppes, pos, ref_len):
    """pam_mut_sgrna_id: ids of the edits spanned by the mutation or sharing a codon slot with its first or last base."""
    def slot(p):
        for (s, e, idx, pre, suf, fcs) in exons:
            if s <= p <= e:
                return (idx, abs(p - fcs) // 3)
        return None
    end = pos + max(0, ref_len - 1)
    out = set()
    for rs, t, sg in ppes:
        if pos <= t <= end or (slot(t) is not None and slot(t) in (slot(pos), slot(end))):
            out.add(sg)
    return sorted(out)


def views(ctx: Ctx):
    cases = [gen_view_case(ctx.rng) for _ in range(ctx.n(300, 4000))]
    common.use_repo()
    res = [view_case(c) for c in cases]
    exprs = []
    for c, r in zip(cases, res):
        exprs.append(coq_view_expr(c, r))
        ctx.evaluations += 1
        exons, ppes, muts = c
        if r['pk_error']:
            ctx.count('view_pk_error')
            continue
        if r['n_rows'] != len(muts):
            ctx.violation('spec_violation', f"v_meta returned {r['n_rows']} rows for {len(muts)} mutations", {'surface': 'view', 'case': c, 'kind': 'view_rows'})
        for (pos, ref), row in zip(muts, r['rows']):
            exp = spec_ids(exons, ppes, pos, len(ref))
            got = row['ids'].split(';') if row['ids'] else []
            if exp:
                ctx.nontriv((common.sha(c), pos, ref))
            if got != exp:
                ctx.violation('spec_violation', f'view: sgRNA ids of a mutation at {pos} (+{len(ref)}) are {got}, expected {exp}',
                              {'surface': 'view', 'kind': 'view_sgrna_ids', 'case': c, 'mutation': [pos, ref]})
    bad, err = coq_eval(IMPORTS, exprs, chunk=150)
    ctx.corr['cases'] += len(exprs)
    if err:
        ctx.violation('correspondence', 'model evaluation failed: ' + err[:300], broken='coqc cases (C07 views)', no_input=True)
    for i in bad[:20]:
        ctx.corr['disagreements'] += 1
        ctx.violation('correspondence', 'v_meta joins differ from the model', {'surface': 'view', 'case': cases[i], 'impl': res[i]},
                      broken='correspondence S-api data/ddl.sql v_meta / sql_insert_exon_codon_ppes')
    ctx.sample({'exons(start,end,index,prefix,suffix,fcs)': cases[0][0], 'ppes(ref,targeton,sgrna)': cases[0][1], 'mutations': cases[0][2][:4]})
    ctl = [e.replace('mkJoin ', 'mkJoin 1', 1) for e in exprs if 'mkJoin ' in e][:2]
    badc, _ = coq_eval(IMPORTS, ctl)
    ctx.controls['run'] += len(ctl)
    ctx.controls['rejected'] += len(badc)
    if len(badc) != len(ctl):
        ctx.violation('control', 'comparator accepted a perturbed view row', broken='negative control', no_input=True)


# ---------------------------------------------------------------- file surface
def translator(d):
    rows = d.get('codon_table') or gen.load_default_table()
    return {r[0]: r[1] for r in rows}


def classify(a, b):
    return 'non' if b == 'STOP' else 'syn' if a == b else 'mis'


def design_case(d):
    return d, sge.run_design(d)


def check_design(ctx: Ctx, d: dict, r: dict):
    if r['exit'] != 0:
        ctx.violation('spec_violation', f"refused: valid design refused: exit {r['exit']} {r['exc']} {r['exc_msg'][:80]}",
                      {'surface': 'file', 'kind': 'refused', 'design': d, 'exc_msg': r['exc_msg']})
        return
    tr = translator(d)
    exons = gen.exons_of(d)
    U = d['ref'].upper()
    comp = common.COMP
    for t in d['targetons']:
        name = sge.sge_targeton_name(d['contig'], d['strand'], t)
        rows = sge.all_meta_rows(r['files'], name)
        if not rows:
            continue
        ids = set(t.get('sgrna') or [])
        listed = [p for p in (d.get('pam') or []) if p['sgrna'] in ids]
        applied = sorted([p for p in listed if t['ref_start'] <= p['pos'] <= t['ref_end']], key=lambda p: p['pos'])
        pam = list(U[t['ref_start'] - 1:t['ref_end']])
        for e in applied:
            pam[e['pos'] - t['ref_start']] = e['alt']
        pam = ''.join(pam)
        case = {'surface': 'file', 'design': d, 'targeton': name}
        ctx.evaluations += 1
        if applied:
            ctx.nontriv((common.sha(d), name))
        if rows[0]['pam_seq'] != pam:
            ctx.violation('spec_violation', 'pam_seq: not background_seq with exactly the listed in-range edits', dict(case, kind='pam_seq'))
        # annotations, ascending position, coding edits only
        exp_annot = []
        for e in applied:
            tc = gen.true_codon_positions(d, e['pos']) if exons else None
            if tc is None or None in tc:
                continue
            c1 = ''.join(U[q - 1] for q in tc)
            c2 = ''.join(e['alt'] if q == e['pos'] else U[q - 1] for q in tc)
            if d['strand'] == '-':
                c1, c2 = ''.join(comp[x] for x in c1), ''.join(comp[x] for x in c2)
            exp_annot.append(classify(tr[c1], tr[c2]))
        if rows[0]['pam_mut_annot'] != ';'.join(exp_annot):
            ctx.violation('spec_violation', f"pam_mut_annot: {rows[0]['pam_mut_annot']!r}, expected {';'.join(exp_annot)!r}", dict(case, kind='pam_mut_annot'))
        # the same two columns through the Coq model (ppe_seq over the whole contig, then get_ppe_mut_types reading the completed codons from it)
        if not d.get('bg'):
            deftbl = [(r_[0], r_[1], cc.rank_of(r_[3])) for r_ in (d.get('codon_table') or gen.load_default_table())]
            tbl = cc.coq_table(deftbl, d['strand'] == '-')
            trs = cc.coq_transcript(exons, d['strand']) if exons else '(mkTr Plus [])'
            ppes = coq_list(f"mkVar {e['pos']} {coq_dna(e['ref'])} {coq_dna(e['alt'])}" for e in listed)
            coding = coq_list(coq_z(e['pos']) for e in applied if exons and (tc := gen.true_codon_positions(d, e['pos'])) is not None and None not in tc)
            MODEL.append((f"pam_columns_agree (pam_columns {'true' if ids else 'false'} {tbl} {trs} 1 {coq_dna(U)} (mkRange {t['ref_start']} {t['ref_end']}) {ppes} {coding}) "
                          f"{coq_str(rows[0]['pam_seq'])} {coq_str(rows[0]['pam_mut_annot'])}", dict(case, kind='pam_columns_model')))
        # sgRNA ids per row
        def codon_of(p):
            tc = gen.true_codon_positions(d, p) if exons else None
            return tuple(sorted(tc)) if tc and None not in tc else None
        for row in rows:
            if row['mut_position'] == '-1':
                continue
            ctx.evaluations += 1
            s = int(row['mut_position'])
            e_ = s + max(0, len(row['ref']) - 1)
            exp = set()
            for e in applied:
                if s <= e['pos'] <= e_:
                    exp.add(e['sgrna'])
                elif codon_of(e['pos']) is not None and codon_of(e['pos']) in (codon_of(s), codon_of(e_)):
                    exp.add(e['sgrna'])
            got = row['pam_mut_sgrna_id']
            if got != ';'.join(sorted(exp)):
                split = any(codon_of(e['pos']) is not None and max(codon_of(e['pos'])) - min(codon_of(e['pos'])) != 2 for e in applied)
                outside = [p for p in listed if p not in applied]
                ctx.violation('spec_violation', f"pam_mut_sgrna_id: {got!r} for a mutation at {s}-{e_}, expected {';'.join(sorted(exp))!r}",
                              dict(case, kind='pam_mut_sgrna_id', junction_codon=split, listed_outside=bool(outside), row={'mut_position': s, 'ref': row['ref'], 'mutator': row['mutator']}))


def junction_edit(rng, d: dict) -> bool:
    """A PAM edit of a listed guide on a base of a codon that an exon junction splits (the other bases of the codon lie in the neighbouring exon:
    its annotation is read across the intron, not from the three contiguous bases)."""
    exons = gen.exons_of(d)
    if len(exons) < 2:
        return False
    U = d['ref'].upper()
    cands = []
    for t in d['targetons']:
        for ex in exons:
            for p in {ex[0], ex[0] + 1, ex[1] - 1, ex[1]}:
                tc = gen.true_codon_positions(d, p)
                if tc and None not in tc and max(tc) - min(tc) > 2 and t['ref_start'] <= p <= t['ref_end'] and 2 <= p <= len(U) - 1:
                    cands.append((t, p, tc))
    if not cands:
        return False
    t, p, tc = rng.choice(cands)
    pam = [e for e in d.get('pam') or [] if e['pos'] not in tc]
    sg = (t.get('sgrna') or ['sg1'])[0]
    pam.append({'pos': p, 'ref': U[p - 1], 'alt': rng.choice([c for c in 'ACGT' if c != U[p - 1]]), 'sgrna': sg})
    d['pam'] = pam
    t['sgrna'] = sorted(set(t.get('sgrna') or []) | {sg})
    return True


def files(ctx: Ctx):
    n = ctx.n(120, 1500)
    focus = {'p_bg': 0.0, 'p_pam': 1.0, 'n_pam': [1, 2, 3, 4, 5], 'p_custom': 0.4, 'allow_junction_pam': True, 'p_pam_outside': 0.2, 'p_gtf': 0.9, 'exon_lens': [4, 5, 7, 8, 10, 11, 13, 17, 21, 30],
             'custom_kinds': ['snv', 'del', 'del', 'ins', 'mnv'], 'p_pam_edge': 0.1}
    designs = [gen.gen_sge(ctx.rng, focus) for _ in range(n)]
    for i, d in enumerate(designs):
        if i % 4 == 1 and junction_edit(ctx.rng, d):
            ctx.count('designs_with_an_edit_in_a_junction_codon')
    # guide names written with a blank before or after them in the SGRNA tag of the PAM VCF (the tool strips them): every third design
    for i, d in enumerate(designs):
        if i % 3 == 2:
            for k, e in enumerate(d.get('pam') or []):
                if (i + k) % 2 == 0 and e.get('sgrna'):
                    e['sgrna_raw'] = e['sgrna'] + ' ' if k % 2 == 0 else ' ' + e['sgrna']
    MODEL.clear()
    for d, r in pool_map_designs(designs):
        check_design(ctx, d, r)
    model_columns(ctx)


MODEL: list = []
PAM_IMPORTS = ['Model.Base', 'Model.Pattern', 'Model.Gpo', 'Model.CodonTable', 'Model.Transcript', 'Model.PpeSeq', 'Model.PamAnnot']


def model_columns(ctx: Ctx):
    if not MODEL:
        return
    exprs = [e for e, _ in MODEL]
    bad, err = coq_eval(PAM_IMPORTS, exprs, chunk=60)
    ctx.corr['cases'] += len(exprs)
    ctx.count('pam_columns_through_model', len(exprs))
    if err:
        ctx.violation('correspondence', 'model evaluation failed: ' + err[:300], broken='coqc cases (C07 pam columns)', no_input=True)
    for i in bad[:20]:
        ctx.corr['disagreements'] += 1
        ctx.violation('correspondence', f"pam_seq / pam_mut_annot of {MODEL[i][1]['targeton']} differ from the model (ppe_seq + ppe_mut_types)", MODEL[i][1],
                      broken='correspondence S-file get_ppe_seq / Targeton.get_ppe_mut_types (Model/PpeSeq.v, Model/PamAnnot.v)')
    # negative control: a changed annotation in the implementation's answer must be rejected
    ctl = [e[:e.rindex('"', 0, len(e) - 1)] + '"non;non;non;non;non;non"' for e in exprs[:3]]
    badc, _ = coq_eval(PAM_IMPORTS, ctl)
    ctx.controls['run'] += len(ctl)
    ctx.controls['rejected'] += len(badc)
    if len(badc) != len(ctl):
        ctx.violation('control', 'comparator accepted a perturbed pam_mut_annot', broken='negative control', no_input=True)


def pool_map_designs(designs):
    from ..runner import pool_map
    return pool_map(design_case, designs)


# ---------------------------------------------------------------- pam_seq under background variants, end to end through the models

BG_IMPORTS = ['Model.Base', 'Model.Pattern', 'Model.Seq', 'Model.Gpo', 'Model.Targeton', 'Model.Context', 'Model.PpeSeq', 'Model.LiftTargeton', 'Model.PamSeqBg']


def background_pam_seq(ctx: Ctx):
    """Designs with background variants (substitutions anywhere, non-coding indels upstream of / inside / downstream of the targetons) and
    PAM edits: the pam_seq column of every targeton = pam_seq_under_background of the model (context, offsets, background sequence, lifted
    targeton, lifted edits, application), and = the independent cell-map liftover."""
    from .. import bg
    n = ctx.n(40, 500)
    designs, tries = [], 0
    while len(designs) < n and tries < 20 * n:
        tries += 1
        d = gen.gen_sge(ctx.rng, {'p_bg': 1.0, 'p_mask': 0.2, 'allow_junction_pam': False, 'p_gtf': 0.85, 'p_custom': 0.0, 'p_pam': 1.0, 'n_pam': [1, 2, 3, 4],
                                  'bg_kinds': ['snv', 'ins', 'ins', 'del', 'del', 'mnv'], 'bg_upstream': ctx.rng.random() < 0.7, 'p_pam_edge': 0.3, 'p_pam_outside': 0.3})
        if d.get('bg') and bg.lift_design(d) is not None:
            designs.append(d)
    exprs, meta = [], []
    for d, r in pool_map_designs(designs):
        if r['exit'] != 0:
            ctx.count('background_designs_refused')       # PAM edit on a changed base, protein-changing variant ...: C15's rules
            continue
        ctx.count('background_designs')
        U = d['ref'].upper()
        allv = bg.unmasked_variants(d)
        exons = gen.exons_of(d)
        bgs = coq_list(f'mkVar {p_} {coq_dna(r_)} {coq_dna(a_)}' for p_, r_, a_ in allv)
        _, L = bg.lift_design(d)
        if exons:
            groups = [d['targetons']]
        else:
            groups = [[t] for t in d['targetons']]
        for grp in groups:
            los = [t['ref_start'] for t in grp] + [e[0] for e in exons]
            his = [t['ref_end'] for t in grp] + [e[1] for e in exons]
            ca, cb = min(los) - (1 if min(los) > 1 else 0), max(his)
            for t in grp:
                name = sge.sge_targeton_name(d['contig'], d['strand'], t)
                rows = sge.all_meta_rows(r['files'], name)
                if not rows:
                    continue
                ids = set(t.get('sgrna') or [])
                listed = [e for e in (d.get('pam') or []) if e['sgrna'] in ids]
                ctx.evaluations += 1
                if any(len(r_) != len(a_) and p_ <= t['ref_end'] for p_, r_, a_ in allv):
                    ctx.nontriv((common.sha(d), name, 'bg'))
                ppes = coq_list(f"mkVar {e['pos']} {coq_dna(e['ref'])} {coq_dna(e['alt'])}" for e in listed)
                exprs.append(f"pam_seq_agrees (pam_seq_under_background {coq_dna(U)} {bgs} (mkRange {ca} {cb}) "
                             f"(mkT (mkRange {t['ref_start']} {t['ref_end']}) (mkRange {t['r2_start']} {t['r2_end']}) {t['ext'][0]} {t['ext'][1]}) "
                             f"{'true' if ids else 'false'} {ppes}) {coq_str(rows[0]['pam_seq'])}")
                meta.append({'surface': 'file', 'design': d, 'targeton': name, 'kind': 'pam_seq_bg_model'})
                # independent: the background sequence over the lifted targeton with the in-range edits at their images
                a2, b2 = L.r2a(t['ref_start']), L.r2a(t['ref_end'])
                exp = list(L.alt[a2 - 1:b2])
                for e in listed:
                    q = L.r2a(e['pos'])
                    if q is not None and a2 <= q <= b2:
                        exp[q - a2] = e['alt']
                if rows[0]['pam_seq'] != ''.join(exp):
                    ctx.violation('spec_violation', 'pam_seq under background variants: not the background sequence of the lifted targeton with the in-range edits at their images',
                                  {'surface': 'file', 'design': d, 'targeton': name, 'kind': 'pam_seq_bg'})
    bad, err = coq_eval(BG_IMPORTS, exprs, chunk=40)
    ctx.corr['cases'] += len(exprs)
    ctx.count('pam_seq_under_background_through_model', len(exprs))
    if err:
        ctx.violation('correspondence', 'model evaluation failed: ' + err[:300], broken='coqc cases (C07 pam_seq under background)', no_input=True)
    for i in bad[:20]:
        ctx.corr['disagreements'] += 1
        ctx.violation('correspondence', f"pam_seq of {meta[i]['targeton']} under background variants differs from the model (pam_seq_under_background)", meta[i],
                      broken='correspondence S-file get_gpo_ctx / get_ctx_seq_bg / lift_targeton_config / get_ppe_seq (Model/PamSeqBg.v)')


MATCHERS = {'junction_codon_halves': lambda c: c.get('kind') == 'pam_mut_sgrna_id' and bool(c.get('junction_codon'))}


def twin_case(d):
    return d, sge.run_design(d)


def twin_contig_stage(ctx: Ctx):
    """The same design on two contigs of one run, PAM edits of the same guide names on both: the PAM columns of a targeton on the second
    contig are those of its twin on the first (the registry of guide names is per contig).  Own generator state."""
    import random
    rng = random.Random(f'C07-twin-contig-{ctx.seed}')
    designs = []
    for _ in range(40 * ctx.n(8, 60)):
        if len(designs) >= ctx.n(8, 60):
            break
        d = gen.gen_sge(rng, {'p_bg': 0.0, 'p_custom': 0.0, 'p_pam': 1.0, 'p_gtf': 0.8, 'p_table': 0.0, 'allow_junction_pam': False, 'n_pam': [2, 3, 4]})
        if not d.get('pam') or not any(t.get('sgrna') for t in d['targetons']):
            continue
        d['extra_contigs'] = {}
        d['clone_contig'] = 'chr2'
        designs.append(d)
    for d, r in pool_map(twin_case, designs, chunksize=2):
        _twin_judge(ctx, d, r)


def _twin_judge(ctx: Ctx, d, r):
    ctx.evaluations += 1
    ctx.count('twin_contig_designs')
    if r['exit'] != 0:
        ctx.violation('spec_violation', f"design repeated on a second contig refused: {r['exc']} {(r.get('exc_msg') or '')[:80]}", {'surface': 'file', 'kind': 'twin_contig', 'design': d})
        return
    for t in d['targetons']:
        n1 = sge.sge_targeton_name(d['contig'], d['strand'], t)
        n2 = sge.sge_targeton_name('chr2', d['strand'], t)
        a, b = sge.all_meta_rows(r['files'], n1), sge.all_meta_rows(r['files'], n2)
        key = lambda x: (x['mutator'], x['mut_position'], x['ref'], x['new'], x['pam_seq'], x['pam_mut_annot'], x['pam_mut_sgrna_id'], x['mseq'])
        if a:
            ctx.nontriv(('twin', common.sha(d), n1))
        if sorted(map(key, a)) != sorted(map(key, b)):
            x = next((k for k in sorted(map(key, a)) if k not in set(map(key, b))), None)
            ctx.violation('spec_violation', f'twin contigs: the PAM columns of {n2} differ from those of {n1} (e.g. only on the first contig: {x and x[:7]})',
                          {'surface': 'file', 'kind': 'twin_contig', 'design': d, 'targeton': n1})


def run(ctx: Ctx):
    views(ctx)
    files(ctx)
    background_pam_seq(ctx)
    twin_contig_stage(ctx)
    return {'rule': 'S-api: the real data/ddl.sql, insert_targeton_ppes and sql_select_meta executed in SQLite on generated exon tables (1-3 exons, both strands, '
                    'frames), 0-6 edits of 1-4 sgRNAs (incl. shifted targeton-level positions) and 3-12 mutations of length 0-8: every join column and the sgRNA '
                    'aggregate compared with the Coq model of the view, and with the spec of pam_mut_sgrna_id; S-file: random designs with 1-5 edits per targeton, '
                    'listed and unlisted sgRNAs, edits outside the targeton, coding and non-coding: pam_seq, pam_mut_annot (own translation), pam_mut_sgrna_id per row. '
                    'Non-trivial = mutation with a non-empty expected id set / targeton with applied edits.'}


def replay_known(ctx: Ctx, k: dict) -> bool:
    with open(common.VERIF + '/' + k['replay']) as fh:
        v = json.load(fh)
    sub = Ctx('C07', ctx.tier, ctx.seed, None)
    sub.known = []
    d, r = design_case(v['case']['design'])
    check_design(sub, d, r)
    return any(x['case'].get('kind') == v['case'].get('kind') for x in sub.violations)


def replay(ctx: Ctx, path: str) -> int:
    with open(path) as fh:
        v = json.load(fh)
    if v.get('case', {}).get('kind') == 'twin_contig':
        common.use_repo()
        d = v['case']['design']
        n0 = len(ctx.violations)
        _twin_judge(ctx, d, twin_case(d)[1])
        if len(ctx.violations) > n0:
            print(f'VIOLATION property=C07 replay={path}')
            return 1
        print('replay: property holds on this input now')
        return 0
    c = v.get('case', {})
    ctx.known = []
    common.use_repo()
    if c.get('surface') == 'view':
        exons, ppes, muts = c['case']
        res = view_case(([tuple(x) for x in exons], [tuple(x) for x in ppes], [tuple(x) for x in muts]))
        bad = False
        if not res['pk_error']:
            for (pos, ref), row in zip(muts, res['rows']):
                got = row['ids'].split(';') if row['ids'] else []
                bad = bad or got != spec_ids([tuple(x) for x in exons], [tuple(x) for x in ppes], pos, len(ref))
    elif 'design' in c:
        d, r = design_case(c['design'])
        MODEL.clear()
        check_design(ctx, d, r)
        model_columns(ctx)
        bad = bool(ctx.violations)
    else:
        print('replay: obligation-only replay file')
        return 0
    if bad:
        print(f'VIOLATION property=C07 replay={path}')
        return 1
    print('replay: property holds on this input now')
    return 0
