"""C10 - MAVE-HGVS strings decode to the sequences they are documented to describe."""
from __future__ import annotations

import json

from .. import common, gen, rowcheck, rowspec, sge
from ..runner import Ctx, coq_eval, coq_dna, coq_str, coq_z

IMPORTS = ['Model.Base', 'Model.Pattern', 'Model.Seq', 'Model.Vcf', 'Model.Mave']
VT = {0: 'VIns', 1: 'VDel', 2: 'VSub', 3: 'VUnknown'}


def api_case(args):
    start, ref_start, vt, ref, alt = args
    from valiant.enums import VariantType
    from valiant.mave_hgvs import get_mave_nt
    try:
        return ('ok', get_mave_nt(start, ref_start, VariantType(vt), ref, alt))
    except ValueError:
        return ('err', 'ValueError')
    except Exception as ex:
        return ('err', 'OtherErr:' + type(ex).__name__)


def sweep(ctx: Ctx):
    rng = ctx.rng
    cases = []
    for vt in (0, 1, 2, 3):
        for rl in range(0, 5):
            for al in range(0, 5):
                for start in (99, 100, 101, 109, 131):
                    cases.append((start, 100, vt, gen.rand_dna(rng, rl), gen.rand_dna(rng, al)))
    common.use_repo()
    res = [api_case(c) for c in cases]
    exprs = []
    for (start, rs, vt, ref, alt), r in zip(cases, res):
        impl = f'(Ok {coq_str(r[1])})' if r[0] == 'ok' else '(Err ValueError)' if r[1] == 'ValueError' else '(Err OtherErr)'
        exprs.append(f'res_eqb String.eqb (get_mave_nt {start} {rs} {VT[vt]} {coq_dna(ref)} {coq_dna(alt)}) {impl}')
        ctx.evaluations += 1
        if r[0] == 'ok' and start >= rs:     # variants of a targeton never start before it
            ctx.nontriv((start, vt, len(ref), len(alt)))
            mv = rowspec.mave_parse(r[1])
            # the string has to be syntactically valid and to describe (type, offset, alleles)
            off = start - rs + 1
            ok = mv is not None
            if ok and vt == 0:
                ok = mv[0] == 'ins' and mv[1:] == (off - 1, off, alt)
            elif ok and vt == 1 and not alt:
                ok = mv[0] == 'del' and mv[1:] == (off, off + len(ref) - 1)
            elif ok and vt == 2 and len(ref) == 1 and len(alt) == 1:
                ok = mv == ('sub', off, ref, alt)
            elif ok:
                ok = mv[0] == 'delins' and mv[1:] == (off, off + len(ref) - 1, alt)
            if not ok:
                ctx.violation('spec_violation', f'get_mave_nt({start}, {rs}, {VT[vt]}, {ref!r}, {alt!r}) = {r[1]!r} does not describe that variant',
                              {'surface': 'api', 'case': [start, rs, vt, ref, alt], 'got': r[1]})
    bad, err = coq_eval(IMPORTS, exprs)
    ctx.corr['cases'] += len(exprs)
    if err:
        ctx.violation('correspondence', 'model evaluation failed: ' + err[:300], broken='coqc cases (C10 sweep)', no_input=True)
    for i in bad[:30]:
        ctx.corr['disagreements'] += 1
        ctx.violation('correspondence', f'get_mave_nt differs from the model for {cases[i]}: impl {res[i]}',
                      {'surface': 'api', 'case': list(cases[i]), 'impl': res[i]}, broken='correspondence S-api get_mave_nt')
    ctx.sample({'get_mave_nt_args': cases[57], 'impl': res[57]})
    ctl = [e.replace('(Ok "g.', '(Ok "g.1', 1) for e in exprs if '(Ok "g.' in e][:3]
    badc, _ = coq_eval(IMPORTS, ctl)
    ctx.controls['run'] += len(ctl)
    ctx.controls['rejected'] += len(badc)
    if len(badc) != len(ctl):
        ctx.violation('control', 'comparator accepted a perturbed string', broken='negative control', no_input=True)


def widened_insertion(case: dict) -> bool:
    return case.get('kind') == 'mave_nt_widened_insertion'


MATCHERS = {'mave_nt_widened_insertion': widened_insertion}


def check_results(ctx: Ctx, results):
    for d, r in results:
        if r['exit'] != 0:
            continue
        for t in r['targetons']:
            for m, row, r1, r2 in t.get('pairs', []):
                ctx.evaluations += 1
                probs = rowspec.check_mave(row, t['rc'])
                if m['start_ppe_start'] is not None or m['end_ppe_start'] is not None or not m['ref']:
                    ctx.nontriv((common.sha(d), t['name'], row['oligo_name'], row['mave_nt']))
                ctx.count('vt:' + ('ins' if not row['ref'] else 'del' if not row['new'] else 'sub'))
                for kind, msg in probs:
                    ctx.violation('spec_violation', f'{kind}: {msg}',
                                  {'surface': 'file', 'kind': kind, 'design': d, 'targeton': t['name'], 'metarow': m,
                                   'row': {k: row[k] for k in ('oligo_name', 'mut_position', 'ref', 'new', 'mave_nt', 'mave_nt_ref', 'pam_seq', 'ref_seq', 'mseq_no_adapt', 'ref_start')}})


def files(ctx: Ctx):
    n = ctx.n(100, 1200)
    focus = {'p_bg': 0.0, 'p_custom': 0.7, 'p_pam': 0.9, 'allow_junction_pam': False, 'n_pam': [1, 2, 3, 4],
             'custom_kinds': ['snv', 'mnv', 'ins', 'ins', 'ins', 'del', 'del', 'delins_u', 'delins_a'], 'p_gtf': 0.95}
    designs = [gen.gen_sge(ctx.rng, focus) for _ in range(n)] + [gen.gen_cdna(ctx.rng, {}) for _ in range(n // 5)]
    results = rowcheck.run_designs(designs)
    rowcheck.model_rows(ctx, results, 'MAVE-HGVS columns', fields=['mave_nt', 'mave_nt_ref'])
    check_results(ctx, results)
    ctx.sample({'targetons': designs[0]['targetons'], 'pam': designs[0].get('pam')})


def bg_accept(kind: str, what: str) -> bool:
    return kind.startswith(('mave', 'row_columns:mave', 'row_columns:background_variants', 'background_variants', 'refused'))


def run(ctx: Ctx):
    sweep(ctx)
    files(ctx)
    # with background variants the offsets of mave_nt / mave_nt_ref are reference offsets and background_variants are stated
    # against ref_seq: checked through the relation with the same design on the pre-edited genome (C06's metamorphic pair)
    from . import c06
    c06.background_stage(ctx, ctx.n(50, 500), bg_accept)
    return {'rule': 'S-api: get_mave_nt over every variant type x REF/ALT lengths 0-4 x 5 offsets (incl. before the targeton) against the Coq printer and the '
                    'documented grammar; S-file: random SGE designs rich in PAM edits and custom insertions (and cDNA designs): every row compared with the Coq '
                    'model of the to_csv loop body on the recorded MetaRow (mave columns) and decoded by an independent parser: mave_nt applied to pam_seq = oligo, '
                    'mave_nt_ref applied to ref_seq = reference with the row mutation, stated reference bases checked. Non-trivial = row whose string was widened '
                    'to a PAM codon or an insertion.'}


def replay_known(ctx: Ctx, k: dict) -> bool:
    with open(common.VERIF + '/' + k['replay']) as fh:
        v = json.load(fh)
    res = rowcheck.run_designs([v['case']['design']])
    sub = Ctx('C10', ctx.tier, ctx.seed, None)
    sub.known = []
    rowcheck.model_rows(sub, res, fields=[])
    check_results(sub, res)
    return any(x['case'].get('kind') == v['case'].get('kind') for x in sub.violations)


def replay(ctx: Ctx, path: str) -> int:
    with open(path) as fh:
        v = json.load(fh)
    c = v.get('case', {})
    if c.get('via') == 'background_pair':
        from . import c06
        common.use_repo()
        if c06.replay_background(ctx, c, bg_accept):
            print(f'VIOLATION property=C10 replay={path}')
            return 1
        print('replay: property holds on this input now')
        return 0
    ctx.known = []
    if c.get('surface') == 'api' and 'case' in c:
        common.use_repo()
        start, rs, vt, ref, alt = c['case']
        r = api_case((start, rs, vt, ref, alt))
        bad = r[0] != 'ok' or rowspec.mave_parse(r[1]) is None
    elif 'design' in c:
        res = rowcheck.run_designs([c['design']])
        rowcheck.model_rows(ctx, res, fields=[])
        check_results(ctx, res)
        bad = any(x['kind'] == 'spec_violation' for x in ctx.violations)
    else:
        print('replay: obligation-only replay file')
        return 0
    if bad:
        print(f'VIOLATION property=C10 replay={path}')
        return 1
    print('replay: property holds on this input now')
    return 0
