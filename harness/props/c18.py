"""C18 - targeton regions tile the reference range and are reported as such."""
from __future__ import annotations

import copy

import json

from .. import common, gen, sge
from ..runner import Ctx, coq_eval, coq_list, coq_z, pool_map

IMPORTS = ['Model.Base', 'Model.Pattern', 'Model.Targeton']


def spec_segments(a, b, p, q, e1, e3):
    """const1, r1, r2, r3, const2 with empties omitted - straight from the README."""
    segs = []
    r1 = (p - e1, p - 1) if e1 > 0 else None
    r3 = (q + 1, q + e3) if e3 > 0 else None
    c1_end = (r1[0] if r1 else p) - 1
    c2_start = (r3[1] if r3 else q) + 1
    if c1_end >= a:
        segs.append((a, c1_end))
    if r1:
        segs.append(r1)
    segs.append((p, q))
    if r3:
        segs.append(r3)
    if c2_start <= b:
        segs.append((c2_start, b))
    return segs


def tiles(segs, a, b) -> bool:
    pos = a
    for s, e in segs:
        if s != pos or e < s:
            return False
        pos = e + 1
    return pos == b + 1


def api_case(args):
    a, b, p, q, e1, e3 = args
    from valiant.loaders.targeton_config import TargetonConfig
    from valiant.strings.strand import Strand
    from valiant.uint_range import UIntRange
    try:
        t = TargetonConfig(UIntRange(a, b), UIntRange(p, q), 'chr1', Strand('+'), e1, e3, ([], [], []), frozenset())
        return ('ok', [(r.start, r.end) for r in t.get_all_regions()])
    except ValueError:
        return ('err', 'ValueError')
    except AssertionError:
        return ('err', 'AssertionError')
    except Exception as ex:
        return ('err', 'OtherErr:' + type(ex).__name__)


def sweep(ctx: Ctx):
    N = 7 if ctx.quick() else 9
    cases = []
    for a in range(1, N + 1):
        for b in range(a, N + 1):
            for p in range(max(0, a - 1), b + 2):
                for q in range(p, b + 2):
                    for e1 in range(-1, b - a + 2):
                        for e3 in range(-1, b - a + 2):
                            if ctx.quick() and (e1 > 3 or e3 > 3) and ctx.rng.random() < 0.7:
                                continue
                            cases.append((a, b, p, q, e1, e3))
    common.use_repo()
    results = [api_case(c) for c in cases]
    exprs = []
    for c, r in zip(cases, results):
        a, b, p, q, e1, e3 = c
        exp = f'(Err {r[1]})' if r[0] == 'err' else '(Ok ' + coq_list(f'mkRange {s} {e}' for s, e in r[1]) + ')'
        exprs.append(f'res_eqb (list_eqb range_eqb) (make_all_regions (mkT (mkRange {coq_z(a)} {coq_z(b)}) (mkRange {coq_z(p)} {coq_z(q)}) {coq_z(e1)} {coq_z(e3)})) {exp}')
        ctx.evaluations += 1
        valid = a <= p and q <= b and e1 >= 0 and e3 >= 0 and p - e1 >= a and q + e3 <= b
        if valid:
            ctx.nontriv(c)
            exp_s = spec_segments(*c)
            if r[0] != 'ok' or [tuple(x) for x in r[1]] != exp_s or not tiles(r[1], a, b):
                ctx.violation('spec_violation', f'targeton {c}: segments {r} do not tile / differ from {exp_s}',
                              {'surface': 'api', 'case': c, 'got': r, 'expected': exp_s})
        elif r[0] == 'ok' and not (e1 < 0 or e3 < 0):
            ctx.violation('spec_violation', f'region or extension exceeding the targeton accepted: {c} -> {r[1]}',
                          {'surface': 'api', 'case': c, 'got': r})
    bad, err = coq_eval(IMPORTS, exprs, chunk=1500)
    ctx.corr['cases'] += len(exprs)
    if err:
        ctx.violation('correspondence', 'model evaluation failed: ' + err[:300], broken='coqc cases (C18 sweep)', no_input=True)
    for i in bad:
        ctx.corr['disagreements'] += 1
        ctx.violation('correspondence', f'impl != model for targeton {cases[i]}: impl {results[i]}',
                      {'surface': 'api', 'case': cases[i], 'impl': results[i]}, broken='correspondence S-api TargetonConfig.get_all_regions')
    ctx.sample({'api_case': cases[len(cases) // 2], 'impl': results[len(cases) // 2]})
    ctl = [e.replace('(Ok [mkRange ', '(Ok [mkRange 1', 1) for e in exprs if '(Ok [mkRange ' in e][:3]
    badc, _ = coq_eval(IMPORTS, ctl)
    ctx.controls['run'] += len(ctl)
    ctx.controls['rejected'] += len(badc)
    if len(badc) != len(ctl):
        ctx.violation('control', 'comparator accepted a perturbed case', broken='negative control', no_input=True)


def design_case(d):
    return d, sge.run_design(d)


def check_design(ctx: Ctx, d: dict, r: dict):
    seqonly = d['opts'].get('sequences_only')
    if r['exit'] != 0:
        ctx.violation('spec_violation', f"valid design refused: exit {r['exit']} {r['exc']} {r['exc_msg'][:80]}",
                      {'surface': 'file', 'design': d})
        return
    if 'ref_sequences.csv' not in r['files']:
        ctx.violation('spec_violation', 'ref_sequences.csv not written', {'surface': 'file', 'design': d})
        return
    if seqonly and set(r['files']) != {'ref_sequences.csv'}:
        ctx.violation('spec_violation', f"--sequences-only wrote {sorted(r['files'])}", {'surface': 'file', 'design': d})
    lines = [ln.split(',') for ln in r['files']['ref_sequences.csv'].split('\n') if ln]
    seqs = {d['contig']: d['ref'].upper(), **{k: v.upper() for k, v in (d.get('extra_contigs') or {}).items()}}
    exp_lines = []
    for t in d['targetons']:
        contig = t.get('contig', d['contig'])
        strand = t.get('strand', d['strand'])
        a, b = t['ref_start'], t['ref_end']
        segs = spec_segments(a, b, t['r2_start'], t['r2_end'], *t['ext'])
        name = f"{contig}_{a}_{b}_{'plus' if strand == '+' else 'minus'}"
        rng_s = f'{contig}:{a}-{b}' if b > a else None
        items = []
        for s, e in segs:
            items += [str(s), seqs[contig][s - 1:e]]
        exp_lines.append((name, rng_s, items))
    ctx.evaluations += len(exp_lines)
    if len(lines) != len(exp_lines):
        ctx.violation('spec_violation', f'ref_sequences.csv has {len(lines)} lines for {len(exp_lines)} targetons',
                      {'surface': 'file', 'design': d, 'lines': lines[:6]})
        return
    for ln, (name, rng_s, items) in zip(lines, exp_lines):
        ctx.nontriv((common.sha(d), name))
        ok = ln[0] == name and (rng_s is None or ln[1] == rng_s) and ln[2:] == items
        if not ok:
            ctx.violation('spec_violation', f'ref_sequences.csv line {ln[:6]}... expected {[name, rng_s] + items[:4]}...',
                          {'surface': 'file', 'design': d, 'line': ln, 'expected': [name, rng_s] + items})


def files(ctx: Ctx):
    n = ctx.n(80, 800)
    designs = []
    for i in range(n):
        d = gen.gen_sge(ctx.rng, {'p_bg': 0.0, 'p_pam': 0.2, 'p_custom': 0.2, 'allow_junction_pam': False, 't_min': 1 if i % 5 == 0 else 8})
        if i % 3 == 0:
            d['opts']['sequences_only'] = True
            if ctx.rng.random() < 0.5:
                d['targetons'][0]['ref_start'] = 1       # a targeton touching the first base of its contig (constant region 1 grows)
        designs.append(d)
    # targetons on two contigs (no annotation / PAM / custom files: those are per-transcript features)
    for i in range(n // 4):
        d = gen.gen_sge(ctx.rng, {'p_gtf': 0.0, 'p_pam': 0.0, 'p_custom': 0.0, 'n_targetons': 2})
        c2 = gen.rand_dna(ctx.rng, 80 if i % 3 else len(d['ref']))
        d['extra_contigs'] = {'chr2': c2}
        s = ctx.rng.randint(1 if i % 2 == 0 else 2, 30)       # base 1 only with --sequences-only (a deletion of the first base: known finding of C19)
        e = s + ctx.rng.randint(5, 40)
        p = ctx.rng.randint(s, e)
        q = ctx.rng.randint(p, e)
        t2 = {'contig': 'chr2', 'ref_start': s, 'ref_end': e, 'r2_start': p, 'r2_end': q,
              'ext': [ctx.rng.randint(0, p - s), ctx.rng.randint(0, e - q)], 'action': ['', 'snv', ''], 'sgrna': []}
        pos = ctx.rng.randint(0, len(d['targetons']))
        if i % 3 == 0:
            # the same coordinates on both contigs in consecutive rows (each must be cut from its own contig)
            t1 = d['targetons'][min(pos, len(d['targetons']) - 1)]
            if t1['ref_end'] <= len(c2) - 1:
                t2 = dict(copy.deepcopy(t1), contig='chr2', sgrna=[])
                pos = d['targetons'].index(t1) + ctx.rng.choice([0, 1])
        d['targetons'].insert(pos, t2)
        if i % 2 == 0:
            d['opts']['sequences_only'] = True
        designs.append(d)
    # a deliberate class (own generator state): two designs of one amplicon - the same range and strand, another target region or other
    # extensions (in a full run the twin lists no guide, so that its files have another name)
    import random
    r2 = random.Random(f'C18-twin-amplicon-{ctx.seed}')
    for i in range(max(6, n // 10)):
        d = gen.gen_sge(r2, {'p_bg': 0.0, 'p_gtf': 0.0, 'p_pam': 1.0 if i % 3 == 2 else 0.0, 'p_custom': 0.0, 'allow_junction_pam': False, 't_min': 12})
        t = r2.choice(d['targetons'])
        a, b = t['ref_start'], t['ref_end']
        for _ in range(50):
            p_ = r2.randint(a, b)
            q_ = r2.randint(p_, b)
            ext = [r2.randint(0, p_ - a), r2.randint(0, b - q_)]
            if (p_, q_, ext) != (t['r2_start'], t['r2_end'], list(t['ext'])):
                break
        twin = dict(copy.deepcopy(t), r2_start=p_, r2_end=q_, ext=ext, action=['', r2.choice(['snv', '1del', 'snv, 1del']), ''], sgrna=[])
        full = i % 3 == 2 and bool(t.get('sgrna'))
        if not full:
            d['opts']['sequences_only'] = True
        k = d['targetons'].index(t)
        d['targetons'].insert(k + r2.choice([0, 1]) if r2.random() < 0.7 else len(d['targetons']), twin)
        d['c18_kind'] = 'twin_amplicon'
        designs.append(d)
    for d, r in pool_map(design_case, designs):
        ctx.count('designs_seqonly' if d['opts'].get('sequences_only') else 'designs_full')
        if d.get('c18_kind'):
            ctx.count('designs_' + d['c18_kind'])
        check_design(ctx, d, r)
    ctx.sample({'targetons': designs[0]['targetons']})


def run(ctx: Ctx):
    sweep(ctx)
    files(ctx)
    return {'rule': 'S-api: every targeton with ref within [1,N] (N=7 quick, 9 thorough), every region 2 incl. one base outside, every extension pair '
                    'from -1 to one beyond the targeton, through the real TargetonConfig; compared with the Coq model and the README tiling spec. '
                    'S-file: ref_sequences.csv of random designs (incl. --sequences-only, single-base targetons, two contigs) against the spec. '
                    'Non-trivial = accepted targeton (api) or a written line (file).'}


def replay(ctx: Ctx, path: str) -> int:
    with open(path) as fh:
        v = json.load(fh)
    case = v.get('case', {})
    common.use_repo()
    if case.get('surface') == 'api':
        c = tuple(case['case'])
        r = api_case(c)
        a, b, p, q, e1, e3 = c
        valid = a <= p and q <= b and e1 >= 0 and e3 >= 0 and p - e1 >= a and q + e3 <= b
        bad = (valid and (r[0] != 'ok' or [tuple(x) for x in r[1]] != spec_segments(*c))) or (not valid and r[0] == 'ok' and e1 >= 0 and e3 >= 0)
    elif 'design' in case:
        d, r = design_case(case['design'])
        check_design(ctx, d, r)
        bad = bool(ctx.violations)
    else:
        print('replay: obligation-only replay file')
        return 0
    if bad:
        print(f'VIOLATION property=C18 replay={path}')
        return 1
    print('replay: property holds on this input now')
    return 0
