"""C16 - config.json reproduces the run; configuration is validated."""
from __future__ import annotations

import copy
import json
import zlib
import os
import re
import shutil
import tempfile

from .. import common, gen, sge
from ..runner import Ctx, coq_bool, coq_eval, coq_list, coq_opt, coq_str, coq_z, pool_map

IMPORTS = ['Model.Base', 'Model.Config', 'Generated.ConfigFields', 'Proofs.ConfigProofs']
LIB_SUFFIXES = ('_meta.csv', '_meta_excluded.csv', '_unique.csv', '_ref.vcf', '_pam.vcf')


def readme_mapping() -> dict[str, str]:
    """CLI argument/option -> JSON property, from the README tables."""
    txt = open(os.path.join(common.REPO, 'README.md')).read()
    sec = txt.split('### Configuration file', 1)[1].split('\n### ', 1)[0]
    return dict(re.findall(r'^\|`([\w\-]+)`\|`(\w+)`\|\s*$', sec, flags=re.M))


def argv_values(argv: list[str]) -> dict[str, object]:
    """What the command line says, keyed by the README's CLI names."""
    pos = ['oligo_info_fp', 'ref_fasta_fp', 'output_dir', 'species', 'assembly']
    flags = {'--revcomp-minus-strand': 'revcomp-minus-strand', '--include-no-op-oligo': 'include-no-op-oligo',
             '--force-bg-ns': 'force-bg-ns', '--force-bg-indels': 'force-bg-indels'}
    valued = {'--gff': 'gff', '--bg': 'bg', '--bg-mask': 'mask_bg_fp', '--pam': 'pam', '--vcf': 'vcf', '--codon-table': 'codon-table',
              '--adaptor-5': 'adaptor-5', '--adaptor-3': 'adaptor-3', '--min-length': 'min-length', '--max-length': 'max-length',
              '--annot': 'annot'}
    mode = argv[0]
    out: dict[str, object] = {}
    i, k = 1, 0
    while i < len(argv):
        a = argv[i]
        if a in flags:
            out[flags[a]] = True
        elif a in valued:
            v = argv[i + 1]
            out[valued[a]] = int(v) if valued[a] in ('min-length', 'max-length') else v
            i += 1
        elif a == '--sequences-only':
            pass
        else:
            out[pos[k]] = a
            k += 1
        i += 1
    if mode == 'sge':
        for f in flags.values():
            out.setdefault(f, False)
        for v in ('gff', 'bg', 'mask_bg_fp', 'pam', 'vcf'):
            out.setdefault(v, None)
    else:
        out.setdefault('annot', None)
    for v in ('codon-table', 'adaptor-5', 'adaptor-3'):
        out.setdefault(v, None)
    out.setdefault('min-length', 1)
    out.setdefault('max-length', 300)
    return out


# properties of the SGE configuration introduced after 3.0 with a default, so that configurations written before still load (fixed here:
# the expectation does not follow the source)
OLD_DEFAULTS = {'includeNoOpOligo': False, 'backgroundVCFFilePath': None, 'forceBackgroundNonSynonymous': False,
                'forceBackgroundFrameShifting': False, 'maskBackgroundFilePath': None}


def run_and_replay(args):
    """Run a design from the command line, then `valiant -c` on the config.json it wrote with only the output directory changed."""
    d, how = args
    root = tempfile.mkdtemp(prefix='vv16_', dir=common.scratch_root())
    try:
        argv = sge.materialise(d, root)
        out1 = os.path.join(root, 'out')
        r1 = sge.run_argv_inproc(argv, out1) if how == 'inproc' else sge.run_argv_subproc(argv, out1)
        res = {'argv': [a.replace(root, '$ROOT') for a in argv], 'exit1': r1['exit'], 'exc1': r1['exc'], 'files1': r1['files'], 'root': root}
        if r1['exit'] != 0 or 'config.json' not in r1['files']:
            return res
        cfg = json.loads(r1['files']['config.json'])
        res['config'] = json.loads(r1['files']['config.json'].replace(root, '$ROOT'))
        out2 = os.path.join(root, 'out2')
        os.makedirs(out2)
        cfg2 = copy.deepcopy(cfg)
        cfg2['params']['outputDirPath'] = out2
        if d.get('_old_cfg') and cfg2.get('mode') == 'sge':
            # a configuration as an older run wrote it: the properties added since (each with a default) are absent when they hold that default
            for k_, dv in OLD_DEFAULTS.items():
                if k_ in cfg2['params'] and cfg2['params'][k_] == dv:
                    del cfg2['params'][k_]
        cfp = os.path.join(root, 'replay.json')
        with open(cfp, 'w') as fh:
            json.dump(cfg2, fh)
        # a replay is another process: by default with another string-hash seed than the original run
        r2 = sge.run_argv_inproc(['-c', cfp], out2) if how == 'inproc' else sge.run_argv_subproc(['-c', cfp], out2, env_extra={'PYTHONHASHSEED': str(1 + d.get('_hs', 6))})
        res.update(exit2=r2['exit'], exc2=r2['exc'], msg2=(r2.get('exc_msg') or '')[:200], files2=r2['files'],
                   log2=[m for lvl, m in r2['log'] if lvl in ('CRITICAL', 'ERROR')][:3])
        res['files1'] = {k: v.replace(root, '$ROOT') for k, v in res['files1'].items()}
        res['files2'] = {k: v.replace(root, '$ROOT') for k, v in res['files2'].items()}
        return res
    finally:
        shutil.rmtree(root, ignore_errors=True)


def make_design(rng, i: int) -> dict:
    if i % 4 == 3:
        d = gen.gen_cdna(rng, {'p_table': 0.3})
        if rng.random() < 0.5:
            d.pop('annot', None)
            for t in d['targetons']:
                t['action'] = [m for m in t['action'] if m in ('snv', '1del', '2del0', '2del1', '3del0', '1del1')] or ['snv']
        o = d['opts']
    else:
        focus = {'p_bg': rng.choice([0.0, 1.0]), 'p_custom': rng.choice([0.0, 1.0]), 'p_pam': rng.choice([0.0, 1.0]), 'p_gtf': rng.choice([0.0, 1.0, 1.0]),
                 'p_table': rng.choice([0.0, 1.0]), 'p_mask': 0.5, 'bg_kinds': ['snv', 'ins', 'del'], 'allow_short_cds': True}
        d = gen.gen_sge(rng, focus)
        if not d.get('gtf'):
            for t in d['targetons']:
                t['action'] = [', '.join(m for m in g.split(', ') if m in ('snv', '1del', '2del0', '2del1', '3del0')) for g in t['action']]
        o = d['opts']
        o['force_ns'] = rng.random() < 0.4
        o['force_fs'] = o['force_ns'] and rng.random() < 0.5
    if rng.random() < 0.4:
        o['min_length'] = rng.choice([1, 5, 30])
    if rng.random() < 0.4:
        o['max_length'] = rng.choice([40, 80, 300, 1000])
    return d


def compare_replay(ctx: Ctx, d: dict, r: dict, mapping: dict, exprs: list, meta: list):
    ctx.evaluations += 1
    ctx.count('mode_' + d['mode'])
    if r['exit1'] != 0:
        ctx.count('first_run_refused')
        return
    cfg = r.get('config')
    if cfg is None:
        ctx.violation('spec_violation', 'successful run wrote no config.json', {'surface': 'file', 'design': d, 'argv': r['argv']})
        return
    # every argument and option under its documented property
    want = argv_values(r['argv'])
    for cli, val in want.items():
        prop = mapping.get(cli)
        ctx.count('options_checked')
        if prop is None:
            ctx.violation('spec_violation', f'CLI name {cli} is not documented in the README table', {'surface': 'file', 'design': d})
            continue
        if prop not in cfg['params'] or cfg['params'][prop] != val:
            ctx.violation('spec_violation', f"config.json records {prop}={cfg['params'].get(prop, '<absent>')!r} for --{cli} {val!r}",
                          {'surface': 'file', 'design': d, 'argv': r['argv'], 'config': cfg})
    if cfg.get('mode') != d['mode'] or cfg.get('appName') != 'valiant':
        ctx.violation('spec_violation', f"config.json envelope: mode={cfg.get('mode')} appName={cfg.get('appName')}", {'surface': 'file', 'design': d, 'config': cfg})
    # the keys are the dump of the model (declaration order, by alias)
    fields = 'sge_fields' if d['mode'] == 'sge' else 'cdna_fields'
    exprs.append(f'list_eqb String.eqb (map f_alias (decls (base_fields ++ {fields}))) {coq_list(coq_str(k) for k in cfg["params"])}')
    meta.append(('keys', d))
    # replay
    if r.get('exit2') != 0:
        ctx.violation('spec_violation', f"valiant -c on the written config.json exits {r.get('exit2')} ({r.get('exc2')} {r.get('msg2', '')[:80]} {r.get('log2')})",
                      {'surface': 'file', 'design': d, 'argv': r['argv'], 'config': cfg})
        return
    f1 = {k: v for k, v in r['files1'].items() if k != 'config.json'}
    f2 = {k: v for k, v in r['files2'].items() if k != 'config.json'}
    if f1:
        ctx.nontriv(common.sha(d))
    if f1 != f2:
        diff = sorted(k for k in set(f1) | set(f2) if f1.get(k) != f2.get(k))
        ctx.violation('spec_violation', f'replay from config.json differs in {diff[:4]}', {'surface': 'file', 'design': d, 'argv': r['argv'], 'config': cfg, 'diff': diff})
    c1 = json.loads(r['files1']['config.json'])
    c2 = json.loads(r['files2']['config.json'])
    c1['params'].pop('outputDirPath', None)
    c2['params'].pop('outputDirPath', None)
    if c1 != c2:
        ctx.violation('spec_violation', 'config.json of the replay differs from the original beyond the output directory', {'surface': 'file', 'design': d, 'c1': c1, 'c2': c2})


# ---------------------------------------------------------------- invalid configurations

def invalid_case(args):
    """-> dict(kind, exit, library files written, detail)."""
    d, kind, how = args
    root = tempfile.mkdtemp(prefix='vv16_', dir=common.scratch_root())
    try:
        argv = sge.materialise(d, root)
        out = os.path.join(root, 'out')
        cli_only = {'bad_adaptor5': ['--adaptor-5', 'ACGU'], 'bad_adaptor3': ['--adaptor-3', 'acgt'], 'bad_adaptor3b': ['--adaptor-3', 'ACGTN'],
                    'min0': ['--min-length', '0'], 'max0': ['--max-length', '0'], 'min_neg': ['--min-length', '-3'], 'max_neg': ['--max-length', '-1'],
                    'fs_without_ns': ['--force-bg-indels']}
        if how == 'cli':
            av = [a for a in argv]
            # remove an existing spelling of the option being overridden
            opt = cli_only[kind][0]
            if opt in av and len(cli_only[kind]) == 2:
                j = av.index(opt)
                del av[j:j + 2]
            if kind == 'fs_without_ns':
                av = [a for a in av if a not in ('--force-bg-ns', '--force-bg-indels')]
            r = sge.run_argv_inproc(av + cli_only[kind], out)
        else:
            # a valid run first, then a replay of its config.json with one thing broken
            r1 = sge.run_argv_inproc(argv, out)
            if r1['exit'] != 0 or 'config.json' not in r1['files']:
                return {'kind': kind, 'skip': True}
            cfg = json.loads(r1['files']['config.json'])
            out2 = os.path.join(root, 'out2')
            os.makedirs(out2)
            cfg['params']['outputDirPath'] = out2
            p = cfg['params']
            text = None
            if kind == 'bad_adaptor5':
                p['adaptor5'] = 'ACXT'
            elif kind == 'bad_adaptor3':
                p['adaptor3'] = 'ac gt'
            elif kind == 'min0':
                p['minOligoLength'] = 0
            elif kind == 'max_neg':
                p['maxOligoLength'] = -5
            elif kind == 'fs_without_ns':
                p['forceBackgroundFrameShifting'], p['forceBackgroundNonSynonymous'] = True, False
            elif kind == 'unknown_mode':
                cfg['mode'] = 'rna'
            elif kind == 'swapped_mode':
                cfg['mode'] = 'cdna' if cfg['mode'] == 'sge' else 'sge'
            elif kind == 'missing_input':
                key = next(k for k in ('oligoInfoFilePath', 'refFASTAFilePath') if p.get(k))
                p[key] = p[key] + '.absent'
            elif kind == 'missing_optional_input':
                keys = [k for k in ('GFFFilePath', 'PAMProtectionVCFFilePath', 'customVCFManifestFilePath', 'backgroundVCFFilePath', 'codonTableFilePath', 'annotationFilePath') if p.get(k)]
                if not keys:
                    return {'kind': kind, 'skip': True}
                p[keys[0]] = p[keys[0]] + '.absent'
            elif kind == 'missing_mask':
                # a background mask that does not exist, next to a background VCF with no record at all: still a missing input file
                if cfg.get('mode') != 'sge':
                    return {'kind': kind, 'skip': True}
                bgp = os.path.join(root, 'bg_empty.vcf')
                seqs = dict({d['contig']: d['ref']}, **(d.get('extra_contigs') or {}))
                with open(bgp, 'w') as fh:
                    fh.write(sge.vcf_text({k: len(v) for k, v in seqs.items()}, [], []))
                p['backgroundVCFFilePath'] = bgp
                p['maskBackgroundFilePath'] = os.path.join(root, 'absent_mask.bed')
            elif kind == 'missing_output_dir':
                p['outputDirPath'] = out2 + '_absent'
            elif kind == 'not_json':
                text = '{"appName": "valiant", '
            elif kind == 'missing_required':
                p.pop('species', None)
            cfp = os.path.join(root, 'broken.json')
            with open(cfp, 'w') as fh:
                fh.write(text if text is not None else json.dumps(cfg))
            out = out2
            r = sge.run_argv_inproc(['-c', cfp], out2)
        lib = [k for k in r['files'] if k.endswith(LIB_SUFFIXES)]
        return {'kind': kind, 'how': how, 'exit': r['exit'], 'exc': r['exc'], 'lib': lib, 'msg': (r.get('exc_msg') or '')[:160]}
    finally:
        shutil.rmtree(root, ignore_errors=True)


def explore(ctx: Ctx):
    rng = ctx.rng
    mapping = readme_mapping()
    n = ctx.n(70, 700)
    designs = [make_design(rng, i) for i in range(n)]
    for i, d in enumerate(designs):
        if i % 5 == 0 and d['mode'] == 'sge' and d.get('pam'):
            # replayed in another process under another hash seed: a targeton listing several guides (its name joins them)
            d['targetons'][0]['sgrna'] = sorted({p_['sgrna'] for p_ in d['pam']} | {'sg1', 'sg2', 'sg3'})
    for i, d in enumerate(designs):
        if i % 3 == 1:
            d['_old_cfg'] = True
    jobs = [(d, 'subproc' if i % 5 == 0 else 'inproc') for i, d in enumerate(designs)]
    results = pool_map(run_and_replay, jobs, chunksize=2)
    exprs, meta = [], []
    for (d, how), r in zip(jobs, results):
        compare_replay(ctx, d, r, mapping, exprs, meta)
        present = [k for k in ('gtf', 'pam', 'vcfs', 'bg', 'mask', 'codon_table', 'annot') if d.get(k)]
        ctx.count('optional_files:' + ('+'.join(present) or 'none'))
    ctx.sample({'argv': results[0]['argv'], 'config': results[0].get('config')})
    # invalid configurations, from the command line and from a configuration file
    valid = [d for (d, _), r in zip(jobs, results) if r['exit1'] == 0][:ctx.n(12, 60)]
    ijobs = []
    for j, d in enumerate(valid):
        for kind in ('bad_adaptor5', 'bad_adaptor3', 'bad_adaptor3b', 'min0', 'max0', 'min_neg', 'max_neg') + (('fs_without_ns',) if d['mode'] == 'sge' else ()):
            if (j + zlib.crc32(kind.encode())) % 3 == 0 or ctx.tier == 'thorough':
                ijobs.append((d, kind, 'cli'))
        for kind in ('bad_adaptor5', 'bad_adaptor3', 'min0', 'max_neg', 'unknown_mode', 'swapped_mode', 'missing_input', 'missing_optional_input',
                     'missing_output_dir', 'not_json', 'missing_required') + (('fs_without_ns', 'missing_mask') if d['mode'] == 'sge' else ()):
            if (j + zlib.crc32(kind.encode())) % 3 == 1 or ctx.tier == 'thorough':
                ijobs.append((d, kind, 'config'))
    ires = pool_map(invalid_case, ijobs, chunksize=2)
    for (d, kind, how), r in zip(ijobs, ires):
        if r.get('skip'):
            continue
        ctx.evaluations += 1
        ctx.count(f'invalid_{how}:{kind}')
        if r['exit'] == 0 or r['lib']:
            ctx.violation('spec_violation', f"invalid configuration ({kind}, via {how}) was not rejected: exit {r['exit']}, library files {r['lib'][:3]}",
                          {'surface': 'file', 'design': d, 'kind': kind, 'how': how})
        else:
            ctx.nontriv(('invalid', kind, how))
    # the validity rule of the model against the constructor of the configuration class
    common.use_repo()
    from valiant.errors import InvalidConfig
    from valiant.sge_config import SGEConfig
    import logging
    logging.disable(logging.CRITICAL)
    for _ in range(ctx.n(150, 1500)):
        a5 = rng.choice([None, '', 'ACGT', 'acgt', 'ACGN', 'AC GT', 'TTTT', 'ACGU', 'A'])
        a3 = rng.choice([None, '', 'ACGT', 'acgt', 'ACGN', 'GG', 'X'])
        mn, mx = rng.choice([-2, 0, 1, 2, 50]), rng.choice([-1, 0, 1, 10, 300])
        ns, fs = rng.random() < 0.5, rng.random() < 0.5
        try:
            SGEConfig(species='s', assembly='a', adaptor_5=a5, adaptor_3=a3, min_length=mn, max_length=mx, codon_table_fp=None, oligo_info_fp='x',
                      ref_fasta_fp='y', output_dir='z', revcomp_minus_strand=False, include_no_op_oligo=False, force_bg_ns=ns, force_bg_fs=fs,
                      gff_fp=None, bg_fp=None, pam_fp=None, vcf_fp=None, mask_bg_fp=None)
            ok = True
        except InvalidConfig:
            ok = False
        so = lambda x: coq_opt(coq_str(x) if x is not None else None)
        exprs.append(f'Bool.eqb (sge_valid {so(a5)} {so(a3)} {coq_z(mn)} {coq_z(mx)} {coq_bool(ns)} {coq_bool(fs)}) {coq_bool(ok)}')
        meta.append(('valid', (a5, a3, mn, mx, ns, fs, ok)))
        ctx.evaluations += 1
        exp = all(x is None or set(x) <= set('ACGT') for x in (a5, a3)) and mn >= 1 and mx >= 1 and (ns or not fs)
        if exp != ok:
            ctx.violation('spec_violation', f'SGEConfig(adaptors {a5!r},{a3!r}, lengths {mn},{mx}, ns={ns}, fs={fs}) {"accepted" if ok else "rejected"}',
                          {'surface': 'api', 'params': [a5, a3, mn, mx, ns, fs]})
    logging.disable(logging.NOTSET)
    bad, err = coq_eval(IMPORTS, exprs)
    ctx.corr['cases'] += len(exprs)
    if err:
        ctx.violation('correspondence', 'model evaluation failed: ' + err[:300], broken='coqc cases (C16)', no_input=True)
    for k in bad:
        ctx.corr['disagreements'] += 1
        ctx.violation('correspondence', f'model != implementation: {meta[k][0]} {str(meta[k][1])[:200]}', {'expr': exprs[k][:500]},
                      broken='correspondence config dump keys / is_valid')
    ctl = [e.replace(') true', ') false') if e.endswith('true') else e.replace(') false', ') true') for e in exprs if e.startswith('Bool.eqb')][:3]
    badc, _ = coq_eval(IMPORTS, ctl)
    ctx.controls['run'] += len(ctl)
    ctx.controls['rejected'] += len(badc)
    if len(badc) != len(ctl):
        ctx.violation('control', 'comparator accepted a flipped decision', broken='negative control', no_input=True)


def run(ctx: Ctx):
    explore(ctx)
    return {'rule': 'Random SGE and cDNA designs over the combinations of optional files (annotation, PAM VCF, custom manifest, background VCF, '
                    'mask, codon table, cDNA annotation) and options (adaptors, limits, the four flags): run from the command line, check that '
                    'config.json records every argument/option under the JSON property the README documents, then run `valiant -c` on it with '
                    'only the output directory changed and compare every output file byte for byte (a fifth of them as real subprocesses, the replay under another PYTHONHASHSEED). '
                    'Invalid configurations (adaptor, limits, frame-shift without non-synonymous forcing, unknown or wrong mode, missing input '
                    'file, missing directory, not JSON, missing required property) from the command line and from a file must exit non-zero '
                    'with no library file. S-api: the constructor of SGEConfig against the validity rule of the model. Non-trivial = a '
                    'replayed design with output files, or a rejected invalid configuration kind.',
            'assumptions': ["pydantic's JSON text and click's parsing are run for real, not modelled"]}


def replay(ctx: Ctx, path: str) -> int:
    with open(path) as fh:
        v = json.load(fh)
    case = v.get('case', {})
    common.use_repo()
    if 'kind' in case and 'design' in case:
        r = invalid_case((case['design'], case['kind'], case.get('how', 'cli')))
        bad = not r.get('skip') and (r['exit'] == 0 or r['lib'])
    elif 'design' in case:
        compare_replay(ctx, case['design'], run_and_replay((case['design'], 'inproc')), readme_mapping(), [], [])
        bad = bool(ctx.violations)
    else:
        print('replay: nothing to run (obligation-only replay file)')
        return 0
    if bad:
        print(f'VIOLATION property=C16 replay={path}')
        return 1
    print('replay: property holds on this input now')
    return 0
