"""C06 - background variants: same library as on a genome that already carries them."""
from __future__ import annotations

import collections
import json

from .. import bg, common, gen, rowcheck, rowspec, sge
from ..runner import Ctx, coq_eval, coq_list, coq_z, pool_map

CONTENT = ['mutator', 'vcf_alias', 'vcf_var_id', 'mseq', 'mseq_no_adapt', 'ref', 'new', 'ref_aa', 'alt_aa', 'mut_type', 'pam_seq',
           'pam_mut_annot', 'pam_mut_sgrna_id', 'vcf_var_in_const', 'oligo_length']


def run_pair(args):
    d, d2 = args
    return d, sge.run_design(d), (sge.run_design(d2) if d2 is not None else None)


def mave_start(s: str):
    mv = rowspec.mave_parse(s)
    if mv is None:
        return None
    return (mv[0], mv[2] if mv[0] == 'ins' else mv[1], mv[-1] if mv[0] in ('ins', 'delins', 'sub') else '')


def compare(ctx: Ctx, d: dict, d2: dict, L: bg.Lift, r: dict, r2: dict):
    def viol(kind, msg, **kw):
        ctx.violation('spec_violation', f'{kind}: {msg}', dict({'surface': 'file', 'kind': kind, 'design': d}, **kw))

    if r2['exit'] != 0:
        ctx.count('pre_edited_genome_refused')
        return          # D' itself is refused: nothing to relate (covered by C19's valid-design stream)
    if r['exit'] != 0 and any(l == 'CRITICAL' and m.startswith('Invalid background') for l, m in r['log']):
        ctx.count('refused_as_protein_changing')
        return          # whether a background variant is acceptable is C15's decision rule
    if r['exit'] != 0:
        viol('refused', f"design with background refused ({r['exc']} {r['exc_msg'][:80]} {[m for l, m in r['log'] if l == 'CRITICAL'][:1]}) although the same design on the pre-edited genome is accepted")
        return
    vs = L.vs
    for t, t2 in zip(d['targetons'], d2['targetons']):
        name = sge.sge_targeton_name(d['contig'], d['strand'], t)
        name2 = sge.sge_targeton_name(d2['contig'], d2['strand'], t2)
        rows = [x for x in sge.all_meta_rows(r['files'], name) if x['mut_position'] != '-1']
        rows2 = [x for x in sge.all_meta_rows(r2['files'], name2) if x['mut_position'] != '-1']
        ctx.evaluations += 1
        shifting_upstream = any(len(v[1]) != len(v[2]) and v[0] <= t['ref_end'] for v in vs)
        if rows2 and shifting_upstream:
            ctx.nontriv((common.sha(d), name))
        ctx.count('targetons_with_upstream_shift' if shifting_upstream else 'targetons_other')
        # targeton-level columns
        if rows:
            x = rows[0]
            exp_bg_seq = L.alt[L.r2a(t['ref_start']) - 1:L.r2a(t['ref_end'])]
            if x['background_seq'] != exp_bg_seq:
                viol('background_seq', 'background_seq is not the reference with the unmasked background variants applied', targeton=name)
            if (int(x['ref_start']), int(x['ref_end'])) != (t['ref_start'], t['ref_end']):
                viol('ref_range', f"ref_start/ref_end reported as {x['ref_start']}-{x['ref_end']}, targeton is {t['ref_start']}-{t['ref_end']}", targeton=name)
            if x['ref_seq'] != d['ref'].upper()[t['ref_start'] - 1:t['ref_end']]:
                viol('ref_seq', 'ref_seq is not the reference over [ref_start, ref_end]', targeton=name)
            if rows2 and x['pam_seq'] != rows2[0]['pam_seq']:
                viol('pam_seq', 'pam_seq differs from the one designed on the pre-edited genome', targeton=name)
            # background_variants: exactly the unmasked variants overlapping the targeton, decoding to them
            over = [v for v in vs if t['ref_start'] <= v[0] <= t['ref_end'] or t['ref_start'] <= v[0] + max(0, len(v[1]) - 1) <= t['ref_end']]
            # an insertion in front of the first base of the targeton lies outside it: either answer is accepted
            edge = [v for v in over if not v[1] and v[0] == t['ref_start']]
            got = [s for s in x['background_variants'].split(';') if s]
            exp = []
            for p, rf, al in over:
                o = p - t['ref_start'] + 1
                exp.append(('sub', o, al) if len(rf) == 1 == len(al) else ('delins', o, al) if rf and al else ('del', o, '') if rf else ('ins', o, al))
            edge_exp = [('ins', v[0] - t['ref_start'] + 1, v[2]) for v in edge]
            gotp = sorted(mave_start(s) or (s,) for s in got)
            if gotp != sorted(exp) and gotp != sorted(x for x in exp if x not in edge_exp):
                viol('background_variants', f'background_variants={got} but the variants overlapping the targeton are {over}', targeton=name)
        # rows: D' rows not touching a shift <-> D rows
        key = lambda x: tuple(x[k] for k in CONTENT)
        want = collections.Counter()
        want_rows = {}
        for x in rows2:
            q = int(x['mut_position'])
            if L.alt_touches(q, len(x['ref'])):
                continue
            p = L.a2r(q)
            k = key(x) + (p,)
            want[k] += 1
            want_rows[k] = x
        have = collections.Counter()
        have_rows = {}
        for x in rows:
            k = key(x) + (int(x['mut_position']),)
            have[k] += 1
            have_rows[k] = x
        for k in (want - have):
            x = want_rows[k]
            # is there a row with the same mutation but different annotations?
            same = [y for y in rows if (y['mutator'], y['mseq'], int(y['mut_position'])) == (x['mutator'], x['mseq'], k[-1])]
            if same:
                diff = [c for c in CONTENT if same[0][c] != x[c]]
                viol('row_columns:' + '+'.join(diff), f"row {x['mutator']} at {k[-1]} {x['ref']}>{x['new']}: columns {diff} differ from the pre-edited genome "
                     f"({[same[0][c] for c in diff][:3]} vs {[x[c] for c in diff][:3]})", targeton=name, mut_position=k[-1], mutator=x['mutator'], columns=diff)
            else:
                viol('row_missing', f"row {x['mutator']} at {k[-1]} ({x['ref']}>{x['new']}) of the pre-edited genome is missing", targeton=name,
                     mut_position=k[-1], mutator=x['mutator'])
        for k in (have - want):
            x = have_rows[k]
            if any((y['mutator'], y['mseq']) == (x['mutator'], x['mseq']) for y in rows2 if not L.alt_touches(int(y['mut_position']), len(y['ref'])) and L.a2r(int(y['mut_position'])) == k[-1]):
                continue    # reported above as row_columns
            if x['mutator'] == 'custom' and not L.ref_touches(int(x['mut_position']), len(x['ref'])) and \
                    (x['vcf_alias'], int(x['mut_position']), '?', x['new']) in {(a, p, '?', n) for a, p, r_, n in L.unrepresentable}:
                continue    # e.g. the anchor base of the record is deleted by the background: D' cannot carry this record (a record that
                            # itself touches a shift is not excused: it must be dropped)
            q = L.r2a(int(x['mut_position']))
            touching = q is None or L.alt_touches(q, len(x['ref']))
            viol('row_not_dropped' if touching else 'row_extra',
                 f"row {x['mutator']} at {x['mut_position']} ({x['ref']}>{x['new']}) " + ('touches a coordinate-shifting background variant but is not dropped' if touching else 'has no counterpart on the pre-edited genome'),
                 targeton=name, mut_position=int(x['mut_position']), mutator=x['mutator'], ref_len=len(x['ref']))
        # reported MAVE offsets are REF coordinates
        by2 = {}
        for x in rows2:
            by2.setdefault((x['mutator'], x['mseq'], x['vcf_alias'], x['vcf_var_id'], x['ref'], x['new'], L.a2r(int(x['mut_position']))), x)
        for x in rows:
            # (two custom records of different files, or differently padded, can give the same oligonucleotide at the same position:
            #  the twin is the row of the same record)
            y = by2.get((x['mutator'], x['mseq'], x['vcf_alias'], x['vcf_var_id'], x['ref'], x['new'], int(x['mut_position'])))
            if y is None or x['pam_mut_sgrna_id'] != y['pam_mut_sgrna_id']:
                continue
            for col in ('mave_nt', 'mave_nt_ref'):
                a, b = mave_start(x[col]), mave_start(y[col])
                if a is None or b is None:
                    continue
                qb = L.a2r(L.r2a(t['ref_start']) + b[1] - 1)
                if qb is None:
                    continue
                if (a[0], a[1], a[2]) != (b[0], qb - t['ref_start'] + 1, b[2]):
                    viol(f'{col}_offset', f"{col}={x[col]} but on the pre-edited genome it is {y[col]} (offset {b[1]} is reference offset {qb - t['ref_start'] + 1})",
                         targeton=name, mut_position=int(x['mut_position']), mutator=x['mutator'])


def single_base_on_insertion_point(c: dict) -> bool:
    if c.get('kind') != 'row_not_dropped' or c.get('ref_len', 9) > 1:
        return False
    vs = bg.unmasked_variants(c['design'])
    return any(not r and p == c['mut_position'] for p, r, a in vs)


MATCHERS = {'single_base_on_insertion_point': single_base_on_insertion_point}


def touching(recs) -> bool:
    recs = sorted(recs, key=lambda r: r['pos'])
    return any(b['pos'] <= a['pos'] + len(a['ref']) for a, b in zip(recs, recs[1:]))


def distal_codon_background(rng, d: dict) -> bool:
    """One targeton starting (or ending) exactly on an exon boundary that splits a codon, with an snv region on the boundary, and a
    synonymous background substitution on the part of that codon that lies in the neighbouring exon - outside every targeton, but inside
    the context the codon is completed from."""
    exons = gen.exons_of(d)
    if len(exons) < 2:
        return False
    U = d['ref'].upper()
    cands = []
    for ex in exons:
        for edge, side in ((ex[0], 'start'), (ex[1], 'end')):
            tc = gen.true_codon_positions(d, edge)
            if not tc or None in tc:
                continue
            distal = [q for q in tc if gen.exon_at(exons, q) != ex]
            if distal:
                cands.append((ex, edge, side, tc, distal))
    rng.shuffle(cands)
    for ex, edge, side, tc, distal in cands:
        ln = rng.randint(0, min(8, ex[1] - ex[0]))
        if side == 'start':
            a, b = edge, edge + ln
            rs_, re_ = a, min(len(U) - 2, b + rng.randint(0, 6))
        else:
            a, b = edge - ln, edge
            rs_, re_ = max(2, a - rng.randint(0, 6)), b
        if gen.region_class(exons, a, b) != 'cds' or re_ - rs_ < 2:
            continue
        if any(gen.exon_at(exons, q) for q in list(range(rs_, a)) + list(range(b + 1, re_ + 1)) if gen.exon_at(exons, q) != ex):
            continue
        for q in rng.sample(distal, len(distal)):
            alts = [x for x in 'ACGT' if x != U[q - 1] and gen.is_syn_bg_snv(d, q, x)]
            if not alts:
                continue
            d['targetons'] = [{'ref_start': rs_, 'ref_end': re_, 'r2_start': a, 'r2_end': b, 'ext': [0, 0], 'action': ['', 'snv', ''], 'sgrna': []}]
            d['pam'] = [e for e in d.get('pam') or [] if rs_ <= e['pos'] <= re_ and e['pos'] not in tc]
            d.pop('vcfs', None)
            d.pop('mask', None)
            keep = [v for v in d.get('bg') or [] if not (v['pos'] - 2 <= q <= v['pos'] + len(v['ref']) + 1) and not any(v['pos'] - 1 <= x <= v['pos'] + len(v['ref']) for x in tc)]
            d['bg'] = sorted(keep + [{'pos': q, 'ref': U[q - 1], 'alts': [rng.choice(alts)], 'id': 'bgdistal', 'kind': 'snv'}], key=lambda r: r['pos'])
            return True
    return False


def make_designs(ctx: Ctx, n: int, focus_over: dict | None = None):
    out = []
    tries = 0
    while len(out) < n and tries < 20 * n:
        tries += 1
        focus = {'p_bg': 1.0, 'p_mask': 0.25, 'allow_junction_pam': False, 'p_gtf': 0.85, 'p_custom': 0.5, 'p_pam': 0.6,
                 'custom_kinds': ['snv', 'mnv', 'ins', 'del', 'delins_u'], 'bg_kinds': ['snv', 'snv', 'ins', 'ins', 'del', 'del', 'mnv'],
                 'bg_upstream': ctx.rng.random() < 0.7, 'p_pam_edge': 0.3, 'n_pam': [1, 2, 3, 4], 'bg_on_custom': 0.4,
                 'bg_adjacent': 0.35, 'first_frame': ctx.rng.choice([0, 0, 0, 1, 2])}      # a coding sequence cut at its start: frame 1 or 2 on the first CDS
        focus.update(focus_over or {})
        d = gen.gen_sge(ctx.rng, focus)
        if not d.get('bg'):
            continue
        if tries % 6 == 0 and d.get('gtf') and distal_codon_background(ctx.rng, d):
            ctx.count('designs_with_background_on_the_distal_part_of_a_split_codon')
        lifted = bg.lift_design(d)
        if lifted is None:
            continue
        # records of the background VCF in any order (a plain-text VCF is read in file order) - except when two records
        # follow each other without a gap: their relative order is then the one a position-sorted VCF has
        if ctx.rng.random() < 0.5 and not touching(d['bg']):
            ctx.rng.shuffle(d['bg'])
        out.append((d, lifted[0], lifted[1]))
    return out


def files(ctx: Ctx):
    triples = make_designs(ctx, ctx.n(120, 1500))
    for j, (d, d2, L) in enumerate(triples):
        if d.get('mask') and j % 2 == 0:
            d['bom'] = ['mask']        # the BED file starts with a byte-order mark: its first interval still counts
    res = pool_map(run_pair, [(d, d2) for d, d2, L in triples], chunksize=2)
    for (d, d2, L), (_, r, r2) in zip(triples, res):
        for v in L.vs:
            ctx.count('bg:' + ('snv/mnv' if len(v[1]) == len(v[2]) else 'ins' if not v[1] else 'del'))
        compare(ctx, d, d2, L, r, r2)
    ctx.sample({'bg': triples[0][0].get('bg'), 'mask': triples[0][0].get('mask'), 'targetons': triples[0][0]['targetons']})
    # the rows written under background variants against the model of the to_csv loop body (with the offsets tables)
    results = rowcheck.run_designs([d for d, d2, L in triples[:ctx.n(60, 600)]])
    rowcheck.model_rows(ctx, results, 'rows under background variants')


def background_stage(ctx: Ctx, n: int, accept, shuffle_bg: bool = False, focus_over: dict | None = None) -> None:
    """For the checks of other properties (C01, C05, C08): the same metamorphic relation on n designs with background variants,
    reporting under the caller's property the violations whose kind/message `accept` selects."""
    sub = Ctx('C06', ctx.tier, ctx.seed, None)
    sub.rng = ctx.rng
    sub.known, sub.matchers = [], {}
    triples = make_designs(sub, n, focus_over)
    if shuffle_bg:      # records of the background VCF in any order (a plain-text VCF is read in file order)
        for d, d2, L in triples:
            if not touching(d['bg']):
                ctx.rng.shuffle(d['bg'])
    res = pool_map(run_pair, [(d, d2) for d, d2, L in triples], chunksize=2)
    for (d, d2, L), (_, r, r2) in zip(triples, res):
        compare(sub, d, d2, L, r, r2)
    ctx.evaluations += sub.evaluations
    ctx.count('background_pairs', len(triples))
    for v in sub.violations:
        kind = v['case'].get('kind', '')
        # a single-base generated mutation kept on an insertion point is C06's recorded finding; custom records there are dropped by the tool
        if (kind != 'row_not_dropped' or v['case'].get('mutator') == 'custom') and accept(kind, v['what']):
            v['case']['via'] = 'background_pair'
            ctx.violation('spec_violation', 'with background variants - ' + v['what'], v['case'])


def replay_background(ctx: Ctx, case: dict, accept) -> bool:
    d, lifted = _case_pair(case)
    if lifted is None:
        return False
    sub = Ctx('C06', ctx.tier, ctx.seed, None)
    sub.known, sub.matchers = [], {}
    _, r, r2 = run_pair((d, lifted[0]))
    compare(sub, d, lifted[0], lifted[1], r, r2)
    return any(accept(x['case'].get('kind', ''), x['what']) and (x['case'].get('kind') != 'row_not_dropped' or x['case'].get('mutator') == 'custom')
               for x in sub.violations)


# ---------------------------------------------------------------- S-api: get_gpo_ctx on the real database

CTX_IMPORTS = ['Model.Base', 'Model.Pattern', 'Model.Gpo', 'Model.GpoTable', 'Model.Context', 'Model.ContextTable']


def impl_ctx(args):
    """(variants [(pos, ref_len, alt_len)] in table order, (a, b)) -> [ctx.start, ctx.end, 0] | [ctx.start, ctx.end, 1, alt_length, ALT position of
    every position of the returned context] | [error code]: the real get_gpo_ctx on the real schema."""
    import sqlite3
    vs, (a, b) = args
    common.use_repo()
    from valiant.db import init_db
    from valiant.sge_proc import get_gpo_ctx
    from valiant.uint_range import UIntRange
    conn = sqlite3.connect(':memory:')
    try:
        init_db(conn)
        conn.cursor().executemany('insert into background_variants(var_id,start,ref,alt) values(?,?,?,?)',
                                  [(f'v{i}', p, 'A' * rl, 'C' * al) for i, (p, rl, al) in enumerate(vs)])
        conn.commit()
        try:
            g, c = get_gpo_ctx(conn, UIntRange(a, b))
        except Exception as ex:
            return [{'ValueError': -2, 'OutOfBoundsVar': -2, 'OverlappingVar': -2, 'IndexError': -3, 'RuntimeError': -4, 'AssertionError': -5}.get(type(ex).__name__, -9)]
        if g is None:
            return [c.start, c.end, 0]
        return [c.start, c.end, 1, g.alt_length] + [-1 if (q := g.ref_to_alt_position(p)) is None else q for p in range(c.start, c.end + 1)]
    finally:
        conn.close()


def gen_ctx_case(rng):
    """Disjoint variants around a context [a, b]: anywhere, and chains that end exactly one base before the place the previous
    widening stopped (each round of the loop reaches the next one)."""
    a = rng.randint(8, 40)
    b = a + rng.randint(0, 25)
    vs, taken = [], set()

    def put(p, rl, al):
        span = set(range(p, p + max(rl, 1)))
        if p < 1 or span & taken:
            return False
        taken.update(span)
        vs.append((p, rl, al))
        return True

    def shape():
        k = rng.choice(['snv', 'snv', 'ins', 'del', 'del', 'mnv'])
        return {'snv': (1, 1), 'ins': (0, rng.randint(1, 3)), 'del': (rng.randint(1, 3), 0), 'mnv': (2, 2)}[k]
    if rng.random() < 0.6:
        # a variant on the first base of the context, then a chain of variants each ending right before the previous one started
        rl, al = shape()
        cur = a - rng.choice([0, 0, 0, 1])
        put(cur, rl, al)
        for _ in range(rng.randint(1, 4)):
            rl, al = shape()
            gap = rng.choice([1, 1, 1, 2, 3])          # 1 = ends on the nucleotide the widening adds
            start = cur - gap - max(rl, 1) + 1
            if start < 1 or not put(start, rl, al):
                break
            cur = start
    for _ in range(rng.randint(0, 4)):
        rl, al = shape()
        put(rng.choice([rng.randint(a, b), b + rng.randint(-2, 4), max(1, a - rng.randint(1, 8))]), rl, al)
    rng.shuffle(vs)
    return vs, (a, b)


def context_stage(ctx: Ctx):
    cases = [gen_ctx_case(ctx.rng) for _ in range(ctx.n(1500, 20000))]
    cases.insert(0, ([(67, 1, 0), (68, 1, 1), (75, 0, 2)], (68, 103)))        # the input of findings/C06/context_extension_reaches_further_variant
    tables = pool_map(impl_ctx, cases, chunksize=64)
    exprs = []
    for (vs, (a, b)), t in zip(cases, tables):
        ctx.evaluations += 1
        exprs.append(f'table_agrees (ctx_table {coq_list(f"mkVS {p} {rl} {al}" for p, rl, al in vs)} (mkRange {a} {b})) {coq_list(coq_z(x) for x in t)}')
        case = {'surface': 'api', 'kind': 'context', 'vs': [list(v) for v in vs], 'range': [a, b], 'impl': t[:4]}
        if len(t) == 1:
            ctx.violation('spec_violation', f'context: get_gpo_ctx raised ({t[0]}) on disjoint variants {vs} for [{a}, {b}]', case)
            continue
        cs, ce = t[0], t[1]
        reach = [v for v in vs if cs <= v[0] <= ce or cs <= v[0] + max(0, v[1] - 1) <= ce]
        ctx.count('context_rounds:' + ('none' if not reach else 'widened' if (cs, ce) != (a, b) else 'unchanged'))
        if len(reach) >= 2 and cs < a - 1:
            ctx.nontriv(('ctx', tuple(vs), a, b))
        if not (cs <= a and b <= ce):
            ctx.violation('spec_violation', f'context: returned context [{cs}, {ce}] does not contain [{a}, {b}]', case)
        elif t[2] != (1 if reach else 0):
            ctx.violation('spec_violation', f'context: offsets {"missing" if reach else "built"} although {len(reach)} variants lie in [{cs}, {ce}]', case)
        elif reach and t[3] != (ce - cs + 1) + sum(al - rl for _, rl, al in reach):
            ctx.violation('spec_violation', f'context: ALT length {t[3]} of the offsets over [{cs}, {ce}] is not its length plus the net change of the '
                          f'{len(reach)} variants it reaches ({(ce - cs + 1) + sum(al - rl for _, rl, al in reach)}): variants {sorted(vs)} asked [{a}, {b}]', case)
    bad, err = coq_eval(CTX_IMPORTS, exprs, chunk=300)
    ctx.corr['cases'] += len(exprs)
    if err:
        ctx.violation('correspondence', 'model evaluation failed: ' + err[:300], broken='coqc cases (C06 context)', no_input=True)
    for i in bad[:30]:
        ctx.corr['disagreements'] += 1
        ctx.violation('correspondence', f'get_gpo_ctx differs from the model for variants {cases[i][0]} in {cases[i][1]}',
                      {'surface': 'api', 'kind': 'context_model', 'vs': [list(v) for v in cases[i][0]], 'range': list(cases[i][1]), 'impl': tables[i]},
                      broken='correspondence S-api sge_proc.get_gpo_ctx (Model/Context.v)')
    ctl = []
    for e in exprs[1:4]:
        head, _, tail = e.rpartition('[')
        ctl.append(head + '[' + tail.replace(';', '; 77;', 1))
    badc, _ = coq_eval(CTX_IMPORTS, ctl)
    ctx.controls['run'] += len(ctl)
    ctx.controls['rejected'] += len(badc)
    if len(badc) != len(ctl):
        ctx.violation('control', 'comparator accepted a perturbed context table', broken='negative control', no_input=True)
    ctx.sample({'context_case': {'variants(pos,ref_len,alt_len)': cases[0][0], 'asked': list(cases[0][1]), 'impl': tables[0][:6]}})


# ---------------------------------------------------------------- S-api: the transcript in background coordinates (lift_exons)

LIFT_IMPORTS = ['Model.Base', 'Model.Pattern', 'Model.Gpo', 'Model.Transcript', 'Model.LiftExons']


def api_lift(args):
    """(strand, exons [(s, e, index, frame)] ascending, variants [(pos, ref_len, alt_len)], (a, b)) -> [(s, e, index, frame)] of the real
    lift_exons (as Transcript.lift_exons keeps them: ascending), or None when it raised."""
    strand, exons, vs, (a, b) = args
    common.use_repo()
    from valiant.exon import Exon
    from valiant.genomic_position_offsets import GenomicPositionOffsets
    from valiant.strings.strand import Strand
    from valiant.transcript import lift_exons
    from valiant.uint_range import UIntRange, UIntRangeSortedList
    from valiant.var_stats import VarStats
    try:
        g = GenomicPositionOffsets.from_var_stats([VarStats(*v) for v in vs], UIntRange(a, b))
        out = UIntRangeSortedList(lift_exons(Strand(strand), g, [Exon(s, e, i, f) for s, e, i, f in exons]))
        return [(x.start, x.end, x.index, x.frame) for x in out]
    except Exception:
        return None


def lift_stage(ctx: Ctx):
    """Transcripts of 1-4 exons (any first frame, consistent frames after it) under disjoint variants anywhere in the context - substitutions
    in exons, indels in introns and in exons, deletions over an exon end, a start or a whole exon: the lifted exons = the Coq model; and when no
    exon changes length = the annotated exons moved by the shift of their first base, with their numbers and frames."""
    from .. import codoncheck as cc
    rng = ctx.rng
    cases = []
    for _ in range(ctx.n(700, 9000)):
        strand = rng.choice('+-')
        k = rng.choice([1, 2, 3, 3, 4])
        pos, segs = rng.randint(8, 12), []
        for _i in range(k):
            ln = rng.choice([1, 2, 3, 4, 5, 7, 9, 12])
            segs.append((pos, pos + ln - 1))
            pos += ln + rng.randint(2, 7)
        a, b = 5, pos + 4
        order = segs if strand == '+' else list(reversed(segs))
        f, ex = rng.choice([0, 0, 0, 1, 2]), []
        for s_, e_ in order:
            ex.append((s_, e_, f))
            f = gen.next_frame(f, e_ - s_ + 1)
        exons = cc.numbered(sorted(ex), strand)
        vs, taken = [], set()
        for _j in range(rng.choice([0, 1, 1, 2, 3, 4])):
            kind = rng.choice(['snv', 'snv', 'ins', 'del', 'del', 'mnv'])
            rl, al = {'snv': (1, 1), 'ins': (0, rng.randint(1, 4)), 'del': (rng.randint(1, 6), 0), 'mnv': (2, 2)}[kind]
            p = rng.choice([rng.randint(a + 1, b - 7)] + [s_ + d_ for s_, e_ in segs for d_ in (-2, -1, 0)] + [e_ + d_ for s_, e_ in segs for d_ in (-1, 0, 1)])
            span = set(range(p, p + max(rl, 1) + 1))
            if p <= a or p + rl > b or span & taken:
                continue
            taken |= span | {p - 1}
            vs.append((p, rl, al))
        vs.sort()
        cases.append((strand, exons, vs, (a, b)))
    res = pool_map(api_lift, cases, chunksize=64)
    exprs = []
    for (strand, exons, vs, (a, b)), got in zip(cases, res):
        ctx.evaluations += 1
        ex = coq_list(f'mkEx {s_} {e_} {i_} {f_}' for s_, e_, i_, f_ in exons)
        impl = 'None' if got is None else '(Some ' + coq_list(f'mkEx {s_} {e_} {i_} {f_}' for s_, e_, i_, f_ in got) + ')'
        exprs.append(f'lift_agrees (do g <- from_var_stats {coq_list(f"mkVS {p} {rl} {al}" for p, rl, al in vs)} (mkRange {a} {b}); '
                     f'lift_exons {"Plus" if strand == "+" else "Minus"} g {ex}) {impl}')
        # independent expectation when no variant changes the length of, or cuts into, an exon
        touching = [v for v in vs if v[1] != v[2] and any(s_ - 1 <= v[0] + max(v[1], 1) - 1 and v[0] <= e_ + (1 if v[1] == 0 else 0) for s_, e_, _, _ in exons)]
        ctx.count('lift:' + ('exon_changed' if touching else 'shifted' if any(v[1] != v[2] for v in vs) else 'in_place'))
        if not touching:
            shift = lambda q: q + sum(al - rl for p, rl, al in vs if p <= q and rl != al)
            want = [(shift(s_), shift(s_) + (e_ - s_), i_, f_) for s_, e_, i_, f_ in exons]
            if any(v[1] != v[2] for v in vs):
                ctx.nontriv(('lift', strand, tuple(exons), tuple(vs)))
            if got != want:
                ctx.violation('spec_violation', f'lifted transcript on {strand}: exons {exons} under {vs} became {got}, expected {want} (no exon changes length)',
                              {'surface': 'api', 'kind': 'lift', 'case': [strand, [list(e) for e in exons], [list(v) for v in vs], [a, b]], 'got': got, 'expected': want})
    bad, err = coq_eval(LIFT_IMPORTS, exprs, chunk=300)
    ctx.corr['cases'] += len(exprs)
    if err:
        ctx.violation('correspondence', 'model evaluation failed: ' + err[:300], broken='coqc cases (C06 lift_exons)', no_input=True)
    for i in bad[:20]:
        ctx.corr['disagreements'] += 1
        strand, exons, vs, (a, b) = cases[i]
        ctx.violation('correspondence', f'lift_exons differs from the model for exons {exons} on {strand} under {vs}',
                      {'surface': 'api', 'kind': 'lift_model', 'case': [strand, [list(e) for e in exons], [list(v) for v in vs], [a, b]], 'got': res[i]},
                      broken='correspondence S-api transcript.lift_exons (Model/LiftExons.v)')

# ---------------------------------------------------------------- S-api: the targeton in background coordinates (lift_targeton_config)

LT_IMPORTS = ['Model.Base', 'Model.Pattern', 'Model.Gpo', 'Model.Targeton', 'Model.LiftTargeton']


def api_lift_targeton(args):
    """((a, b) targeton, (p, q) region 2, e1, e3, variants, (ca, cb) context) -> [ref.start, ref.end, r2.start, r2.end, e1, e3] | error code"""
    (a, b), (p, q), e1, e3, vs, (ca, cb) = args
    common.use_repo()
    from valiant.genomic_position_offsets import GenomicPositionOffsets
    from valiant.loaders.targeton_config import TargetonConfig
    from valiant.sge_proc import lift_targeton_config
    from valiant.strings.strand import Strand
    from valiant.uint_range import UIntRange
    from valiant.var_stats import VarStats
    try:
        g = GenomicPositionOffsets.from_var_stats([VarStats(*v) for v in vs], UIntRange(ca, cb))
        t = TargetonConfig(UIntRange(a, b), UIntRange(p, q), 'chr1', Strand('+'), e1, e3, ([], [], []), frozenset())
    except Exception:
        return None
    try:
        t2 = lift_targeton_config(g, t)
        return [t2.ref.start, t2.ref.end, t2.region_2.start, t2.region_2.end, t2.region_1_length, t2.region_3_length]
    except ValueError:
        return [-2]
    except RuntimeError:
        return [-4]
    except AssertionError:
        return [-5]
    except Exception:
        return [-9]


def lift_targeton_stage(ctx: Ctx):
    rng = ctx.rng
    cases = []
    for _ in range(ctx.n(700, 9000)):
        ca = rng.randint(3, 9)
        a = ca + rng.randint(1, 6)
        b = a + rng.randint(4, 30)
        cb = b + rng.randint(0, 8)
        p = rng.randint(a, b)
        q = rng.randint(p, b)
        e1 = rng.randint(0, p - a) if rng.random() < 0.8 else rng.randint(0, 3)
        e3 = rng.randint(0, b - q) if rng.random() < 0.8 else rng.randint(0, 3)
        vs, taken = [], set()
        for _j in range(rng.choice([0, 1, 1, 2, 3])):
            kind = rng.choice(['snv', 'ins', 'ins', 'del', 'del', 'mnv'])
            rl, al = {'snv': (1, 1), 'ins': (0, rng.randint(1, 4)), 'del': (rng.randint(1, 5), 0), 'mnv': (2, 2)}[kind]
            x = rng.choice([rng.randint(ca + 1, cb), a + rng.randint(-2, 1), b + rng.randint(-2, 1), p + rng.randint(-2, 1), q + rng.randint(-2, 1)])
            span = set(range(x, x + max(rl, 1) + 1))
            if x <= ca or x + rl - 1 > cb or span & taken:
                continue
            taken |= span | {x - 1}
            vs.append((x, rl, al))
        vs.sort()
        cases.append(((a, b), (p, q), e1, e3, vs, (ca, cb)))
    res = pool_map(api_lift_targeton, cases, chunksize=64)
    exprs, kept = [], []
    for c, got in zip(cases, res):
        if got is None:
            continue          # the targeton itself is not a valid row (C18/C19), or the variants do not fit the context
        (a, b), (p, q), e1, e3, vs, (ca, cb) = c
        ctx.evaluations += 1
        ctx.count('lift_targeton:' + ('ok' if len(got) > 1 else 'refused'))
        if len(got) > 1 and any(v[1] != v[2] and v[0] <= b for v in vs):
            ctx.nontriv(('lt', c[0], c[1], tuple(vs)))
        exprs.append(f'table_agrees (match (do g <- from_var_stats {coq_list(f"mkVS {x} {rl} {al}" for x, rl, al in vs)} (mkRange {ca} {cb}); '
                     f'lift_targeton g (mkT (mkRange {a} {b}) (mkRange {p} {q}) {e1} {e3})) with '
                     f'| Ok t => [rs (t_ref t); re (t_ref t); rs (t_r2 t); re (t_r2 t); t_e1 t; t_e3 t] | Err e => [enc_err e] end) {coq_list(coq_z(x) for x in got)}')
        kept.append(c)
    bad, err = coq_eval(LT_IMPORTS + ['Model.GpoTable'], exprs, chunk=300)
    ctx.corr['cases'] += len(exprs)
    if err:
        ctx.violation('correspondence', 'model evaluation failed: ' + err[:300], broken='coqc cases (C06 lift_targeton)', no_input=True)
    for i in bad[:20]:
        ctx.corr['disagreements'] += 1
        ctx.violation('correspondence', f'lift_targeton_config differs from the model for {kept[i]}',
                      {'surface': 'api', 'kind': 'lift_targeton_model', 'case': [list(kept[i][0]), list(kept[i][1]), kept[i][2], kept[i][3], [list(v) for v in kept[i][4]], list(kept[i][5])]},
                      broken='correspondence S-api sge_proc.lift_targeton_config (Model/LiftTargeton.v)')


def run_two(args):
    d, d2 = args
    return sge.run_design(d), sge.run_design(d2)


def two_strand_stage(ctx: Ctx):
    """Two genes on the two strands of one contig, background variants in the context of one of them only: the library of the other
    gene must be the one of the same run on the pre-edited genome (there its coordinates are shifted by the net length change when
    the edited gene lies before it).  Own generator state: the designs of the other stages stay what they were."""
    import copy
    import random
    from .. import merge
    rng = random.Random(f'C06-two-strands-{ctx.seed}')
    sub = Ctx('C06', ctx.tier, ctx.seed, None)
    sub.rng = rng
    sub.known, sub.matchers = [], {}
    n = ctx.n(16, 160)
    focus_b = {'p_bg': 0.0, 'p_gtf': 1.0, 'p_custom': 0.0, 'p_pam': 0.5, 'p_table': 0.0, 'allow_junction_pam': False, 'n_targetons': rng.choice([1, 2])}
    jobs = []
    for a, a2, L in make_designs(sub, 4 * n, {'p_gtf': 1.0, 'p_custom': 0.0, 'p_table': 0.0, 'p_mask': 0.0}):
        if len(jobs) >= n:
            break
        if not a.get('gtf') or a.get('codon_table'):
            continue
        b = None
        for _ in range(20):
            x = gen.gen_sge(rng, focus_b)
            if x['strand'] != a['strand'] and x.get('gtf'):
                b = x
                break
        if b is None:
            continue
        b['opts'] = dict(a['opts'])
        b['extra_contigs'] = {}
        for t in a['targetons'] + a2['targetons'] + b['targetons']:
            t['sgrna'] = ['sg1'] if t.get('sgrna') else []
        for x in (a, a2, b):
            for e in x.get('pam') or []:
                e['sgrna'] = 'sg1'
        first = rng.random() < 0.7      # the edited gene before the other one on the contig (coordinates of the other shift), or after it
        if first:
            d, d2, off, off2 = merge.merge_designs(a, b, True), merge.merge_designs(a2, b, True), len(a['ref']), len(a2['ref'])
            mine = [(len(a['targetons']) + j, b['strand'], t) for j, t in enumerate(b['targetons'])]
        else:
            d, d2, off, off2 = merge.merge_designs(b, a, True), merge.merge_designs(b, a2, True), 0, 0
            mine = [(j, b['strand'], t) for j, t in enumerate(b['targetons'])]
        jobs.append((d, d2, mine, off2 - off if first else 0))
    res = pool_map(run_two, [(d, d2) for d, d2, _, _ in jobs], chunksize=2)
    for (d, d2, mine, delta), (r, r2) in zip(jobs, res):
        two_strand_compare(ctx, d, d2, [[j, st] for j, st, _ in mine], delta, r, r2)


def two_strand_compare(ctx: Ctx, d, d2, mine, delta, r, r2):
    cols = [c for c in CONTENT if c != 'oligo_length'] + ['oligo_length']
    case = {'surface': 'file', 'design': d, 'pre_edited': d2, 'mine': mine, 'delta': delta}
    ctx.evaluations += 1
    ctx.count('two_strand_designs')
    if r2['exit'] != 0:
        ctx.count('two_strand_pre_edited_refused')
        return
    if r['exit'] != 0:
        if any(l == 'CRITICAL' and m.startswith('Invalid background') for l, m in r['log']):
            return
        ctx.violation('spec_violation', f"two-strand design with background refused ({r['exc']} {r['exc_msg'][:80]}) although the same design on the pre-edited genome is accepted",
                      dict(case, kind='two_strands_refused'))
        return
    for j, strand in mine:
        t, t2 = d['targetons'][j], d2['targetons'][j]
        name = sge.sge_targeton_name(d['contig'], strand, t)
        name2 = sge.sge_targeton_name(d2['contig'], strand, t2)
        key = lambda x, dl: tuple(x[c] for c in cols) + (int(x['mut_position']) + dl if x['mut_position'] != '-1' else -1,)
        A = collections.Counter(key(x, delta) for x in sge.all_meta_rows(r['files'], name))
        B = collections.Counter(key(x, 0) for x in sge.all_meta_rows(r2['files'], name2))
        if A:
            ctx.nontriv(('two_strands', common.sha(d), name))
        if A != B:
            oa, ob = list((A - B).elements())[:1], list((B - A).elements())[:1]
            ctx.violation('spec_violation', f'two strands: targeton {name} of the gene without background variants differs from the run on the pre-edited genome: '
                                            f'only with --bg {[(k[0], k[7:10], k[-1]) for k in oa]}, only pre-edited {[(k[0], k[7:10], k[-1]) for k in ob]}',
                          dict(case, kind='two_strands', targeton_index=j))


def pam_codon_design(rng) -> dict | None:
    """A background substitution on another base of the codon of an applied PAM protection edit (accepted with --force-bg-ns whatever it does
    to the protein): the consequence of the edit must be the one it has on the genome that already carries the substitution."""
    from .. import codonspec
    d = gen.gen_sge(rng, {'p_bg': 0.0, 'p_gtf': 1.0, 'p_pam': 1.0, 'p_custom': 0.0, 'p_table': 0.0, 'allow_junction_pam': False})
    if not d.get('pam') or not d.get('gtf'):
        return None
    fr = codonspec.Frame(gen.exons_of(d), d['strand'])
    U = d['ref'].upper()
    t = d['targetons'][0]
    cand = [e for e in d['pam'] if e['sgrna'] in (t.get('sgrna') or []) and t['ref_start'] <= e['pos'] <= t['ref_end'] and e['pos'] in fr.idx and fr.codon_positions(e['pos'])]
    if not cand:
        return None
    e = rng.choice(cand)
    cp = [q for q in fr.codon_positions(e['pos']) if q != e['pos'] and t['ref_start'] <= q <= t['ref_end'] and not any(x['pos'] == q for x in d['pam'])]
    if not cp:
        return None
    q = rng.choice(cp)
    d['bg'] = [{'pos': q, 'ref': U[q - 1], 'alts': [rng.choice([c for c in 'ACGT' if c != U[q - 1]])], 'id': 'bgc'}]
    d['opts'] = dict(d['opts'], force_ns=True, force_fs=False)
    return d


def pam_codon_stage(ctx: Ctx):
    import random
    rng = random.Random(f'C06-pam-codon-{ctx.seed}')
    triples = []
    for _ in range(60 * ctx.n(12, 120)):
        if len(triples) >= ctx.n(12, 120):
            break
        d = pam_codon_design(rng)
        if d is None:
            continue
        lifted = bg.lift_design(d)
        if lifted is not None:
            triples.append((d, lifted[0], lifted[1]))
    res = pool_map(run_pair, [(d, d2) for d, d2, L in triples], chunksize=2)
    for (d, d2, L), (_, r, r2) in zip(triples, res):
        ctx.count('designs_with_background_in_a_pam_codon')
        compare(ctx, d, d2, L, r, r2)


def upstream_frameshift_design(rng):
    """A frame-shifting background indel inside a coding exon that lies before (in transcript order) the exons of all targetons and outside every
    targeton: it is not judged (C15 judges variants that start in a targeton) and moves the reading frame of everything downstream.  -> (design,
    the same design on the pre-edited genome with the frames of the annotation chained again from the first exon, liftover) or None."""
    d = gen.gen_sge(rng, {'p_bg': 0.0, 'p_gtf': 1.0, 'p_custom': 0.0, 'p_pam': 0.4, 'p_table': 0.0, 'n_exons': rng.choice([2, 3, 3]), 'allow_junction_pam': False,
                          'exon_lens': [12, 17, 20, 22, 31], 'n_targetons': rng.choice([1, 2])})
    if not d.get('gtf') or len(d['gtf']['cds']) < 2:
        return None
    U = d['ref'].upper()
    cds = [list(c) for c in d['gtf']['cds']]
    order = cds if d['strand'] == '+' else list(reversed(cds))
    touched = lambda ex: any(t['ref_start'] - 3 <= ex[1] and ex[0] <= t['ref_end'] + 3 for t in d['targetons'])
    if touched(order[0]) or not any(touched(ex) for ex in order[1:]):
        return None
    s_, e_ = order[0][0], order[0][1]
    if e_ - s_ < 8:
        return None
    p = rng.randint(s_ + 2, e_ - 5)
    ln = rng.choice([1, 2, 4])
    if any(abs(x['pos'] - p) < ln + 3 for x in d.get('pam') or []):
        return None
    rec = ({'pos': p, 'ref': U[p - 1], 'alts': [U[p - 1] + gen.rand_dna(rng, ln)]} if rng.random() < 0.5 else
           {'pos': p, 'ref': U[p - 1:p + min(ln, 2)], 'alts': [U[p - 1]]})
    rec['id'] = 'bgfs'
    d['bg'] = [rec]
    d.pop('mask', None)
    lifted = bg.lift_design(d)
    if lifted is None:
        return None
    d2, L = lifted
    # the annotation of the pre-edited genome: frames chained from the first exon over the new exon lengths
    c2 = d2['gtf']['cds']
    o2 = c2 if d['strand'] == '+' else list(reversed(c2))
    for k in range(1, len(o2)):
        prev = o2[k - 1]
        o2[k][2] = (3 - ((prev[1] - prev[0] + 1 - prev[2]) % 3)) % 3
    return d, d2, L


def upstream_frameshift_stage(ctx: Ctx, accept=None):
    import random
    rng = random.Random(f'C06-upstream-frameshift-{ctx.seed}')
    sub = ctx if accept is None else Ctx('C06', ctx.tier, ctx.seed, None)
    if accept is not None:
        sub.known, sub.matchers = [], {}
    triples = []
    for _ in range(80 * ctx.n(10, 100)):
        if len(triples) >= ctx.n(10, 100):
            break
        t = upstream_frameshift_design(rng)
        if t is not None:
            triples.append(t)
    res = pool_map(run_pair, [(d, d2) for d, d2, L in triples], chunksize=2)
    for (d, d2, L), (_, r, r2) in zip(triples, res):
        ctx.count('designs_with_an_upstream_frameshift')
        compare(sub, d, d2, L, r, r2)
    if accept is not None:
        ctx.evaluations += sub.evaluations
        for v in sub.violations:
            if accept(v['case'].get('kind', ''), v['what']):
                v['case']['via'] = 'upstream_frameshift_pair'
                ctx.violation('spec_violation', 'frame-shifting background indel upstream - ' + v['what'], v['case'])


def compensating_design(rng):
    """Two non-coding background indels of the same size and opposite sign around a targeton (net length change of the context: zero): between
    them every coordinate is shifted, after them none."""
    d = gen.gen_sge(rng, {'p_bg': 0.0, 'p_gtf': 1.0, 'p_custom': 0.3, 'p_pam': 0.5, 'p_table': 0.0, 'n_exons': rng.choice([2, 3, 3]), 'allow_junction_pam': False,
                          'n_targetons': rng.choice([1, 2])})
    if not d.get('gtf'):
        return None
    U = d['ref'].upper()
    exons = gen.exons_of(d)
    t = rng.choice(d['targetons'])
    lo = min([e[0] for e in exons] + [x['ref_start'] for x in d['targetons']])
    hi = max([e[1] for e in exons] + [x['ref_end'] for x in d['targetons']])
    k = rng.choice([1, 2, 3, 4])
    hard = set()
    for e in exons:
        hard |= set(range(e[0] - 3, e[1] + 4))
    for x in d['targetons']:
        for b in (x['ref_start'], x['ref_end'], x['r2_start'], x['r2_end'], x['r2_start'] - x['ext'][0], x['r2_end'] + x['ext'][1]):
            hard |= set(range(b - 2, b + 3))
    for e in d.get('pam') or []:
        hard |= set(range(e['pos'] - 2, e['pos'] + 3))
    for f in d.get('vcfs') or []:
        for r in f['records']:
            hard |= set(range(r['pos'] - 2, r['pos'] + len(r['ref']) + 3))
    safe = lambda p: all(q not in hard for q in range(p, p + k + 2))
    before = [p for p in range(max(lo + 1, 4), t['r2_start'] - k - 2) if safe(p)]
    after = [p for p in range(t['r2_end'] + 2, hi - k - 2) if safe(p)]
    if not before or not after:
        return None
    p1, p2 = rng.choice(before), rng.choice(after)
    ins = {'pos': p1, 'ref': U[p1 - 1], 'alts': [U[p1 - 1] + gen.rand_dna(rng, k)], 'id': 'bgins'}
    dele = {'pos': p2, 'ref': U[p2 - 1:p2 + k], 'alts': [U[p2 - 1]], 'id': 'bgdel'}
    d['bg'] = [ins, dele] if rng.random() < 0.5 else [dict(dele, pos=p1, ref=U[p1 - 1:p1 + k], alts=[U[p1 - 1]]), dict(ins, pos=p2, ref=U[p2 - 1], alts=[U[p2 - 1] + gen.rand_dna(rng, k)])]
    d.pop('mask', None)
    lifted = bg.lift_design(d)
    if lifted is None:
        return None
    return d, lifted[0], lifted[1]


def compensating_stage(ctx: Ctx, accept=None):
    import random
    rng = random.Random(f'C06-compensating-indels-{ctx.seed}')
    sub = ctx if accept is None else Ctx('C06', ctx.tier, ctx.seed, None)
    if accept is not None:
        sub.known, sub.matchers = [], {}
    triples = []
    for _ in range(80 * ctx.n(10, 100)):
        if len(triples) >= ctx.n(10, 100):
            break
        t = compensating_design(rng)
        if t is not None:
            triples.append(t)
    res = pool_map(run_pair, [(d, d2) for d, d2, L in triples], chunksize=2)
    for (d, d2, L), (_, r, r2) in zip(triples, res):
        ctx.count('designs_with_compensating_indels')
        compare(sub, d, d2, L, r, r2)
    if accept is not None:
        ctx.evaluations += sub.evaluations
        for v in sub.violations:
            kind = v['case'].get('kind', '')
            if (kind != 'row_not_dropped' or v['case'].get('mutator') == 'custom') and accept(kind, v['what']):
                v['case']['via'] = 'compensating_indels_pair'
                ctx.violation('spec_violation', 'background indels whose lengths cancel - ' + v['what'], v['case'])


def run(ctx: Ctx):
    context_stage(ctx)
    files(ctx)
    lift_stage(ctx)
    lift_targeton_stage(ctx)
    two_strand_stage(ctx)
    pam_codon_stage(ctx)
    upstream_frameshift_stage(ctx)
    compensating_stage(ctx)
    return {'rule': 'Metamorphic on the real tool: random SGE designs with background SNV/MNV anywhere and non-coding insertions/deletions upstream of, inside and '
                    'downstream of the targetons (with BED masks, PAM edits, custom variants, 1-3 targetons) are run next to the same design on the pre-edited genome '
                    '(reference = splice of the unmasked variants, every coordinate lifted): rows must correspond one-to-one on all content columns except those touching '
                    'a shift, with mut_position/ref_start/ref_end/MAVE offsets being the REF images; background_seq, background_variants checked against the spec. '
                    'Non-trivial = targeton with a coordinate-shifting variant at or before its end. S-api: the real get_gpo_ctx on the real schema (in-memory SQLite) for '
                    'disjoint variant sets around a context, with chains that each round of the widening loop reaches: returned context, ALT length and the ALT image of every '
                    'position = Coq model (Model/Context.v, vm_compute), and = the closure spec (length + net change of the variants the returned context reaches); '
                    'the real lift_exons and lift_targeton_config on transcripts / targetons under disjoint variants (substitutions, indels in introns and exons, deletions over exon ends) = '
                    'the models (Model/LiftExons.v, Model/LiftTargeton.v) and, when no exon changes length, = the annotated exons shifted with their numbers and frames.'}


def _case_pair(c):
    d = c['design']
    lifted = bg.lift_design(d)
    return d, lifted


def replay_known(ctx: Ctx, k: dict) -> bool:
    with open(common.VERIF + '/' + k['replay']) as fh:
        v = json.load(fh)
    d, lifted = _case_pair(v['case'])
    if lifted is None:
        return False
    sub = Ctx('C06', ctx.tier, ctx.seed, None)
    sub.known = []
    _, r, r2 = run_pair((d, lifted[0]))
    compare(sub, d, lifted[0], lifted[1], r, r2)
    kind = v['case'].get('kind', '').split(':')[0]
    return any(x['case'].get('kind', '').split(':')[0] == kind for x in sub.violations)


def replay(ctx: Ctx, path: str) -> int:
    with open(path) as fh:
        v = json.load(fh)
    c = v.get('case', {})
    ctx.known = []
    if c.get('kind') in ('context', 'context_model'):
        vs, (a, b) = [tuple(v) for v in c['vs']], c['range']
        t = impl_ctx((vs, (a, b)))
        bad = len(t) == 1
        if not bad:
            reach = [v for v in vs if t[0] <= v[0] <= t[1] or t[0] <= v[0] + max(0, v[1] - 1) <= t[1]]
            bad = not (t[0] <= a and b <= t[1]) or t[2] != (1 if reach else 0) or (bool(reach) and t[3] != (t[1] - t[0] + 1) + sum(al - rl for _, rl, al in reach))
        if not bad:
            e = f'table_agrees (ctx_table {coq_list(f"mkVS {p} {rl} {al}" for p, rl, al in vs)} (mkRange {a} {b})) {coq_list(coq_z(x) for x in t)}'
            badm, err = coq_eval(CTX_IMPORTS, [e])
            bad = bool(badm or err)
        if bad:
            print(f'VIOLATION property=C06 replay={path}')
            return 1
        print('replay: property holds on this input now')
        return 0
    if 'design' not in c:
        print('replay: obligation-only replay file')
        return 0
    if c.get('kind') in ('two_strands', 'two_strands_refused'):
        r, r2 = run_two((c['design'], c['pre_edited']))
        two_strand_compare(ctx, c['design'], c['pre_edited'], c['mine'], c['delta'], r, r2)
        if ctx.violations:
            print(f'VIOLATION property=C06 replay={path}')
            return 1
        print('replay: property holds on this input now')
        return 0
    d, lifted = _case_pair(c)
    if lifted is None:
        print('replay: design no longer liftable')
        return 0
    _, r, r2 = run_pair((d, lifted[0]))
    compare(ctx, d, lifted[0], lifted[1], r, r2)
    if ctx.violations:
        print(f'VIOLATION property=C06 replay={path}')
        return 1
    print('replay: property holds on this input now')
    return 0
