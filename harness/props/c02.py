"""C02 - snv and NdelK mutators emit exactly the documented set of mutations."""
from __future__ import annotations

import itertools
import copy
import re

from .. import common, gen, sge
from ..runner import Ctx, coq_eval, coq_dna, coq_list, coq_z, pool_map

IMPORTS = ['Model.Base', 'Model.Pattern']
ERRMAP = {'ValueError': 'ValueError', 'AssertionError': 'AssertionError', 'IndexError': 'IndexError'}
DEL_RE = re.compile(r'^(\d+)del(\d*)$')


# ---- the specification, independently of the code's arithmetic (Spec/PatternSpec.v in Python)
def del_spec(start: int, s: str, span: int, off: int) -> list[tuple[int, str, str]]:
    out, k = [], 0
    while off + (k + 1) * span <= len(s):
        o = off + k * span
        out.append((start + o, s[o:o + span], ''))
        k += 1
    return out


def snv_spec(start: int, s: str) -> list[tuple[int, str, str]]:
    return [(start + i, c, a) for i, c in enumerate(s) for a in 'ACGT' if a != c]


def coq_vars(vs) -> str:
    return coq_list(f'mkVar {coq_z(p)} {coq_dna(r)} {coq_dna(a)}' for p, r, a in vs)


def coq_res(r) -> str:
    return f'(Err {r[1]})' if r[0] == 'err' else f'(Ok {coq_vars(r[1])})'


# ---- S-api: the real mutators on every small (L, span, offset)
def api_case(args):
    start, s, span, off = args
    from valiant.int_pattern_builder import IntPatternBuilder
    from valiant.mutators.deletion import DeletionMutator
    from valiant.mutators.snv import SnvMutator
    from valiant.seq import Seq
    from valiant.strings.dna_str import DnaStr
    q = Seq(start, DnaStr(s))
    try:
        if span is None:
            vs = SnvMutator().get_variants(q)
        else:
            vs = DeletionMutator(IntPatternBuilder(off, span)).get_variants(q)
        return ('ok', [(v.pos, str(v.ref), str(v.alt)) for v in vs])
    except Exception as ex:
        return ('err', ERRMAP.get(type(ex).__name__, 'OtherErr'))


def sweep(ctx: Ctx):
    rng = ctx.rng
    maxL, maxS, maxO = (12, 5, 6) if ctx.quick() else (16, 7, 8)
    cases = []
    for L in range(1, maxL + 1):
        s = gen.rand_dna(rng, L)
        for start in (1, 37):
            cases.append((start, s, None, None))
            for span in range(1, maxS + 1):
                for off in range(0, maxO + 1):
                    cases.append((start, s, span, off))
    common.use_repo()
    results = [api_case(c) for c in cases]
    exprs = []
    for (start, s, span, off), r in zip(cases, results):
        q = f'(mkSeq {start} {coq_dna(s)})'
        call = f'snv_variants {q}' if span is None else f'del_variants {q} {off} {span}'
        exprs.append(f'vars_res_eqb ({call}) {coq_res(r)}')
        # the property on the implementation's answer
        exp = snv_spec(start, s) if span is None else del_spec(start, s, span, off)
        ctx.evaluations += 1
        if r[0] != 'ok' or sorted(r[1]) != sorted(exp):
            ctx.violation('spec_violation',
                          f"{'snv' if span is None else f'{span}del{off}'} on a {len(s)}-base region: expected {exp[:4]}... got {r if r[0]=='err' else r[1][:6]}",
                          {'surface': 'api', 'start': start, 'seq': s, 'span': span, 'offset': off, 'got': r, 'expected': exp})
        if span is not None and off > 0 and len(exp) > 0:
            ctx.nontriv(('api', len(s), span, off))
    bad, err = coq_eval(IMPORTS, exprs)
    ctx.corr['cases'] += len(exprs)
    if err:
        ctx.violation('correspondence', 'model evaluation failed: ' + err[:300], broken='coqc cases (C02 sweep)', no_input=True)
    for i in bad:
        ctx.corr['disagreements'] += 1
        start, s, span, off = cases[i]
        ctx.violation('correspondence', f'impl != model for span={span} offset={off} L={len(s)}',
                      {'surface': 'api', 'start': start, 'seq': s, 'span': span, 'offset': off, 'impl': results[i]},
                      broken='correspondence S-api DeletionMutator/SnvMutator.get_variants')
    ctx.sample({'api_case': cases[7], 'impl': results[7]})
    # negative control: a perturbed implementation answer must be rejected by the comparator
    ctl = [e for e in exprs if 'Ok [mkVar' in e][:3]
    ctl = [re.sub(r'mkVar (\d+)', lambda m: f'mkVar {int(m.group(1)) + 1}', e, count=1) for e in ctl]
    badc, _ = coq_eval(IMPORTS, ctl)
    ctx.controls['run'] += len(ctl)
    ctx.controls['rejected'] += len(badc)
    if len(badc) != len(ctl):
        ctx.violation('control', 'comparator accepted a perturbed case', broken='negative control', no_input=True)


# ---- file surface
def parse_label(m: str):
    mm = DEL_RE.match(m)
    if not mm:
        return None
    return int(mm.group(1)), int(mm.group(2) or 0)


def label_of(span: int, off: int) -> str:
    return '1del' if span == 1 else f'{span}del{off}'


def regions_of(t: dict):
    a, b = t['r2_start'], t['r2_end']
    e1, e3 = t['ext']
    return [(a - e1, a - 1) if e1 else None, (a, b), (b + 1, b + e3) if e3 else None]


def expected_rows(t: dict, template: str, ref_start: int):
    """{label: sorted [(pos, ref, new)]} for snv and deletion labels requested on each region."""
    exp: dict[str, list] = {}
    for r, g in zip(regions_of(t), t['action']):
        if r is None:
            continue
        muts = sorted(set(x.strip() for x in g.split(',') if x.strip()))
        rseq = template[r[0] - ref_start:r[1] - ref_start + 1]
        want_snv = 'snv' in muts or 'snvre' in muts   # snvre pulls in snv (DEPENDENT_MUTATOR_TYPES)
        if want_snv:
            exp.setdefault('snv', []).extend(snv_spec(r[0], rseq))
        seen = set()
        for m in muts:
            p = parse_label(m)
            if p and p not in seen:
                seen.add(p)
                exp.setdefault(label_of(*p), []).extend(del_spec(r[0], rseq, *p))
    return {k: sorted(v) for k, v in exp.items()}


def design_case(d: dict):
    r = sge.run_design(d)
    return d, r


def check_design(ctx: Ctx, d: dict, r: dict, exprs: list, meta: list):
    if r['exit'] != 0:
        ctx.count('runs_failed')
        ctx.violation('spec_violation', f"valid design refused: exit {r['exit']} {r['exc']} {r['exc_msg'][:80]}",
                      {'surface': 'file', 'design': d, 'exc': r['exc'], 'exc_msg': r['exc_msg']})
        return
    for t in d['targetons']:
        if d['mode'] == 'sge':
            name = sge.sge_targeton_name(t.get('contig', d['contig']), t.get('strand', d['strand']), t)
            tt = t
        else:
            cand = [n for n in sge.targeton_names(r['files']) if n.startswith(t['seq_id'] + '_')]
            name = None
            tt = {'r2_start': t['r2_start'], 'r2_end': t['r2_end'], 'ext': [0, 0], 'action': ['', ', '.join(t['action']), '']}
        rows = sge.all_meta_rows(r['files'], name) if name else None
        if rows is None:
            # cDNA file names carry an md5: match on ref_start/ref_end columns instead
            rows = []
            for n in cand:
                rs = sge.all_meta_rows(r['files'], n)
                if rs and int(rs[0]['ref_start']) == t['ref_start'] and int(rs[0]['ref_end']) == t['ref_end']:
                    # several cDNA targetons may share the range: compare r2/action through the hash being distinct
                    rows = rs if not rows else rows
            if len([x for x in d['targetons'] if (x['seq_id'], x['ref_start'], x['ref_end']) == (t['seq_id'], t['ref_start'], t['ref_end'])]) > 1:
                continue
        got: dict[str, list] = {}
        template = None
        for row in rows:
            template = row['pam_seq'] or row['ref_seq']
            m = row['mutator']
            if m == 'snv' or parse_label(m):
                got.setdefault(m, []).append((int(row['mut_position']), row['ref'], row['new']))
        if template is None:
            # no rows at all: fine only if nothing was expected; need the template from the design
            template = (dict({d['contig']: d['ref']}, **(d.get('extra_contigs') or {}))[t.get('contig', d['contig'])].upper()[t['ref_start'] - 1:t['ref_end']] if d['mode'] == 'sge'
                        else d['seqs'][t['seq_id']][t['ref_start'] - 1:t['ref_end']])
        exp = expected_rows(tt, template, t['ref_start'])
        for lab in sorted(set(exp) | set(got)):
            e, g = exp.get(lab, []), sorted(got.get(lab, []))
            ctx.evaluations += 1
            ctx.count('label:' + ('NdelK' if lab not in ('snv', '1del') else lab))
            if e:
                ctx.nontriv((common.sha(d), name or t['seq_id'], lab))
            if e != g:
                missing = [x for x in e if x not in g][:3]
                extra = [x for x in g if x not in e][:3]
                ctx.violation('spec_violation', f"rows labelled {lab}: missing {missing} unexpected {extra} (dups: {len(g) - len(set(g))})",
                              {'surface': 'file', 'design': d, 'targeton': t, 'label': lab, 'expected': e[:50], 'got': g[:50]})
        # model correspondence: per region and mutator, the model on the region's template bases
        for reg, grp in zip(regions_of(tt), tt['action']):
            if reg is None:
                continue
            muts = sorted(set(x.strip() for x in grp.split(',') if x.strip()))
            rseq = template[reg[0] - t['ref_start']:reg[1] - t['ref_start'] + 1]
            q = f'(mkSeq {reg[0]} {coq_dna(rseq)})'
            others = [rg for rg, gg in zip(regions_of(tt), tt['action']) if rg is not None and rg != reg]
            for m in muts:
                p = parse_label(m)
                lab = 'snv' if m == 'snv' else (label_of(*p) if p else None)
                if lab is None:
                    continue
                # rows of this label inside this region (another region may carry the same label)
                mine = sorted(x for x in got.get(lab, []) if reg[0] <= x[0] <= reg[1])
                if p and any(parse_label(o) and parse_label(o) != p and label_of(*parse_label(o)) == lab for o in muts):
                    continue  # two span-1 deletions with different offsets share the label 1del
                call = f'snv_variants {q}' if m == 'snv' else f'del_variants {q} {p[1]} {p[0]}'
                exprs.append(f'vars_res_eqb ({call}) (Ok {coq_vars(mine)})')
                meta.append((d, t, m))


def alias_spelling(x: str) -> str:
    """The other documented spelling of a parametric deletion (offset zero when absent): 2del0 <-> 2del."""
    import re
    m = re.fullmatch(r'(\d+)del(0?)', x)
    return x if not m else (m.group(1) + 'del' + ('' if m.group(2) else '0'))


def files(ctx: Ctx):
    n = ctx.n(120, 1500)
    focus = {'p_bg': 0.0, 'p_custom': 0.2, 'p_pam': 0.4, 'allow_junction_pam': False,
             'non_cds_mut': ['snv', '1del', '2del0', '2del1', '3del0', '3del1', '3del2', '1del1', '4del0', '2del', '5del3', '7del2', '1del5', '6del1'],
             'cds_mut': ['snvre', 'inframe'], 'allow_short_cds': False}
    designs = [gen.gen_sge(ctx.rng, focus) for _ in range(n)]
    designs += [gen.gen_cdna(ctx.rng, {}) for _ in range(n // 4)]
    # tiny targetons that are their own region 2: the deletion of SPAN = targeton length leaves an empty oligonucleotide (still a row)
    for _ in range(max(4, n // 12)):
        d = gen.gen_sge(ctx.rng, {'p_bg': 0.0, 'p_custom': 0.0, 'p_pam': 0.0, 'p_gtf': 0.0, 'n_targetons': 1})
        L = ctx.rng.randint(1, 6)
        s0 = ctx.rng.randint(5, len(d['ref']) - 20)
        lab = '1del' if L == 1 and ctx.rng.random() < 0.5 else f'{L}del0'
        d['targetons'] = [dict(d['targetons'][0], ref_start=s0, ref_end=s0 + L - 1, r2_start=s0, r2_end=s0 + L - 1, ext=[0, 0],
                               action=['', ', '.join(sorted({lab, ctx.rng.choice(['snv', '1del', lab])})), ''], sgrna=[])]
        for k in ('pam', 'vcfs', 'bg', 'mask'):
            d.pop(k, None)
        designs.append(d)
    # alias pairs (1del with 1del0, 2del with 2del0) stay in: one mutator, its rows once (defect repaired in 3846a61); a fifth of the
    # groups with a parametric deletion get the other spelling added
    for d in designs:
        for t in d['targetons']:
            if d['mode'] == 'cdna':
                extra = [alias_spelling(m) for m in t['action'] if alias_spelling(m) != m and ctx.rng.random() < 0.2]
                t['action'] = t['action'] + extra
            else:
                for i, g in enumerate(t['action']):
                    items = [x.strip() for x in g.split(',') if x.strip()]
                    extra = [alias_spelling(m) for m in items if alias_spelling(m) != m and ctx.rng.random() < 0.2]
                    if extra:
                        t['action'][i] = ', '.join(items + extra)
    # targetons of two contigs in interleaved rows (chr1, chr2, chr1, ...; own generator state): every row of the file is a targeton of its own
    import random as _random
    r3 = _random.Random(f'C02-interleaved-contigs-{ctx.seed}')
    for _ in range(max(4, n // 15)):
        d = gen.gen_sge(r3, {'p_bg': 0.0, 'p_custom': 0.0, 'p_pam': 0.0, 'p_gtf': 0.0, 'n_targetons': r3.choice([2, 3]),
                             'non_cds_mut': ['snv', '1del', '2del0', '2del1', '3del1']})
        if len(d['targetons']) < 2:
            continue
        c2 = gen.rand_dna(r3, len(d['ref']))
        d['extra_contigs'] = {'chr2': c2}
        mixed = []
        for k, t in enumerate(d['targetons']):
            mixed.append(t)
            if k < len(d['targetons']) - 1:
                mixed.append(dict(copy.deepcopy(t), contig='chr2', sgrna=[]))
        d['targetons'] = mixed
        designs.append(d)
    # two-digit offsets and spans (own generator state): 2del10, 3del10, 5del20, 10del10, 12del20 added to region 2 of every sixth SGE design
    import random
    r2 = random.Random(f'C02-two-digit-{ctx.seed}')
    for i, d in enumerate(designs):
        if d['mode'] == 'sge' and i % 6 == 3:
            t = r2.choice(d['targetons'])
            items = [x.strip() for x in t['action'][1].split(',') if x.strip()]
            if items:
                t['action'][1] = ', '.join(items + r2.sample(['2del10', '3del10', '5del20', '10del10', '12del20', '1del10', '4del11'], 2))
    # length limits: rows that are too short (deletions) or too long go to the excluded file and still count
    for i, d in enumerate(designs):
        if i % 5 == 1:
            if d['mode'] == 'sge':
                t0 = d['targetons'][0]
                L = t0['ref_end'] - t0['ref_start'] + 1
            else:
                t0 = d['targetons'][0]
                L = t0['ref_end'] - t0['ref_start'] + 1
            L += len(d['opts'].get('adaptor5') or '') + len(d['opts'].get('adaptor3') or '')
            d['opts']['min_length'] = max(1, L - ctx.rng.choice([0, 0, 1, 2]))       # most deletion rows are too short, none too long (a limit below 1 is an invalid configuration)
            if ctx.rng.random() < 0.3:
                d['opts']['max_length'] = L
    results = pool_map(design_case, designs)
    exprs, meta = [], []
    for d, r in results:
        ctx.count('designs_' + d['mode'])
        check_design(ctx, d, r, exprs, meta)
    if results:
        d0 = results[0][0]
        ctx.sample({'design_targetons': d0['targetons'], 'strand': d0.get('strand'), 'mode': d0['mode']})
    bad, err = coq_eval(IMPORTS, exprs)
    ctx.corr['cases'] += len(exprs)
    if err:
        ctx.violation('correspondence', 'model evaluation failed: ' + err[:300], broken='coqc cases (C02 files)', no_input=True)
    for i in bad:
        ctx.corr['disagreements'] += 1
        d, t, m = meta[i]
        ctx.violation('correspondence', f'file rows of {m} differ from the model',
                      {'surface': 'file', 'design': d, 'targeton': t, 'mutator': m, 'expr': exprs[i][:2000]},
                      broken='correspondence S-file rows by mutator label (C02)')


def run(ctx: Ctx):
    sweep(ctx)
    files(ctx)
    return {'rule': 'S-api: every (L<=16, span<=7, offset<=8, 2 starts) through the real DeletionMutator/SnvMutator, compared with the '
                    'Coq model (vm_compute) and with the independent spec; S-file: random SGE and cDNA designs, rows grouped by '
                    'mutator label compared with the spec and the model. Non-trivial = a (design, targeton, label) with at least one expected row, '
                    'or an api case with offset>0 and at least one window.'}


def replay(ctx: Ctx, path: str) -> int:
    import json
    with open(path) as fh:
        v = json.load(fh)
    case = v.get('case', {})
    common.use_repo()
    if case.get('surface') == 'api':
        r = api_case((case['start'], case['seq'], case['span'], case['offset']))
        exp = snv_spec(case['start'], case['seq']) if case['span'] is None else del_spec(case['start'], case['seq'], case['span'], case['offset'])
        bad = r[0] != 'ok' or sorted(map(tuple, r[1])) != sorted(exp)
    elif 'design' in case:
        d, r = design_case(case['design'])
        check_design(ctx, d, r, [], [])
        bad = bool(ctx.violations)
    else:
        print('replay: nothing to run (obligation-only replay file)')
        return 0
    if bad:
        print(f'VIOLATION property=C02 replay={path}')
        return 1
    print('replay: property holds on this input now')
    return 0
