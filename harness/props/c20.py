"""C20 - metadata tables follow the documented schema and echo the run parameters."""
from __future__ import annotations

import json
import re

from .. import common, gen, sge
from ..runner import Ctx, pool_map

DOC_FIELDS = ['oligo_name', 'species', 'assembly', 'gene_id', 'transcript_id', 'src_type', 'ref_chr', 'ref_strand', 'ref_start', 'ref_end', 'revc',
              'ref_seq', 'pam_seq', 'vcf_alias', 'vcf_var_id', 'mut_position', 'ref', 'new', 'ref_aa', 'alt_aa', 'mut_type', 'mutator', 'oligo_length',
              'mseq', 'mseq_no_adapt', 'pam_mut_annot', 'pam_mut_sgrna_id', 'mave_nt', 'mave_nt_ref', 'vcf_var_in_const', 'background_variants', 'background_seq']
TAGS = ['SGE_SRC', 'SGE_REF', 'SGE_OLIGO', 'SGE_VCF_ALIAS', 'SGE_VCF_VAR_ID']


def design_case(d):
    return d, sge.run_design(d)


def check(ctx: Ctx, d: dict, r: dict):
    if r['exit'] != 0:
        return
    def viol(kind, msg, **kw):
        ctx.violation('spec_violation', f'{kind}: {msg}', dict({'surface': 'file', 'kind': kind, 'design': d}, **kw))
    g = d.get('gtf') or {}
    for fn, text in r['files'].items():
        if fn.endswith('_meta.csv') or fn.endswith('_meta_excluded.csv'):
            header, rows, raw = sge.parse_meta(text)
            ctx.evaluations += 1
            if header != DOC_FIELDS:
                viol('header', f'{fn}: header is {header[:6]}... instead of the 32 documented columns')
                continue
            for fields, row in zip(raw, rows):
                ctx.evaluations += 1
                if len(fields) != 32:
                    viol('field_count', f'{fn}: a row has {len(fields)} comma-separated fields', row=fields[:8])
                    continue
                noop = row['mut_position'] == '-1'
                ctx.nontriv((fn, row['oligo_name'], row['mut_position'], row['new']))
                exp = {'species': d.get('species', 'sp'), 'assembly': d.get('assembly', 'asm')}
                if d['mode'] == 'sge':
                    t = next((x for x in d['targetons'] if fn.startswith(sge.sge_targeton_name(d['contig'], d['strand'], x) + '_meta')), None)
                    exp.update({'gene_id': g.get('gene_id') or '', 'transcript_id': g.get('transcript_id') or '', 'ref_chr': d['contig'], 'ref_strand': d['strand'],
                                'revc': '1' if d['opts'].get('revcomp') else '0'})
                    if not noop:
                        exp['src_type'] = 'ref'
                    if t is not None:
                        exp.update({'ref_start': str(t['ref_start']), 'ref_end': str(t['ref_end'])})
                else:
                    sid = next((s for s in d['seqs'] if fn.startswith(s + '_')), None)
                    a = next((x for x in (d.get('annot') or []) if x[0] == sid), None)
                    exp.update({'src_type': 'cdna', 'ref_chr': '', 'ref_strand': '', 'pam_seq': '', 'vcf_alias': '', 'vcf_var_id': '', 'vcf_var_in_const': '0',
                                'pam_mut_annot': '', 'pam_mut_sgrna_id': '', 'revc': '0',
                                'gene_id': (a[1] if a else '') or '', 'transcript_id': (a[2] if a else '') or ''})
                    cands = [x for x in d['targetons'] if x['seq_id'] == sid]
                    if not any((str(x['ref_start']), str(x['ref_end'])) == (row['ref_start'], row['ref_end']) for x in cands):
                        viol('constant:ref_start', f"{fn}: ref_start/ref_end {row['ref_start']}-{row['ref_end']} is no targeton of {sid}")
                if noop:
                    exp.update({'vcf_alias': '', 'vcf_var_id': '', 'ref': '', 'new': '', 'ref_aa': '', 'alt_aa': '', 'mut_type': '', 'mutator': '',
                                'pam_mut_sgrna_id': '', 'mave_nt': '', 'mave_nt_ref': '', 'vcf_var_in_const': '0'})
                for k, v in exp.items():
                    if row[k] != v:
                        viol('constant:' + k, f'{fn}: column {k} is {row[k]!r}, the run parameter is {v!r}' + (' (no-op row)' if noop else ''), column=k)
                if row['mutator'] != 'custom' and not noop and (row['vcf_alias'] or row['vcf_var_id']):
                    viol('constant:vcf_alias', f'{fn}: vcf fields set on a generated mutation')
                if not re.fullmatch(r'((syn|mis|non|ncd)(;(syn|mis|non|ncd))*)?', row['pam_mut_annot']):
                    viol('array_separator', f"{fn}: pam_mut_annot={row['pam_mut_annot']!r}")
        elif fn.endswith('.vcf'):
            header, recs = sge.parse_vcf(text)
            ctx.evaluations += 1
            if not any(h.startswith(f'##contig=<ID={d["contig"]}') for h in header):
                viol('vcf_header_contig', f'{fn}: contig {d["contig"]} not declared')
            for tag in TAGS:
                if not any(h.startswith(f'##INFO=<ID={tag},') for h in header):
                    viol('vcf_header_tag', f'{fn}: INFO tag {tag} not declared')
            for rec in recs:
                for k in rec['info']:
                    if k not in TAGS:
                        viol('vcf_header_tag', f'{fn}: record uses undeclared INFO tag {k}')


def files(ctx: Ctx):
    n = ctx.n(120, 1200)
    ds = []
    for i in range(n):
        if i % 4 == 3:
            ds.append(gen.gen_cdna(ctx.rng, {}))
        else:
            d = gen.gen_sge(ctx.rng, {'p_bg': 0.3 if i % 2 else 0.0, 'allow_junction_pam': False, 'p_no_ids': 0.3, 'p_gtf': 0.7, 'p_no_op': 0.6,
                                      'n_pam': [1, 2, 3, 4], 'p_pam': 0.8, 'p_custom': 0.6, 'custom_kinds': ['snv', 'del', 'del', 'ins', 'mnv']})
            if i % 5 == 0:
                d['species'], d['assembly'] = 'homo sapiens', 'GRCh38.p13'
            # long custom deletions spanning several PAM edits (array-valued sgRNA column)
            if d.get('pam') and d.get('vcfs') is not None and len(d['pam']) >= 2:
                ps = sorted(p['pos'] for p in d['pam'])
                a, b = ps[0], ps[-1]
                if 2 < a and b - a < 30 and b + 2 < len(d['ref']):
                    U = d['ref'].upper()
                    d['vcfs'][0]['records'].append({'pos': a - 1, 'ref': U[a - 2:b + 1], 'alts': [U[a - 2]], 'id': 'span', 'info': ({d['vcfs'][0]['id_tag']: '77'} if d['vcfs'][0].get('id_tag') else {}), 'kind': 'del'})
                    d['vcfs'][0]['records'].sort(key=lambda r: (r.get('contig', d['contig']) != d['contig'], r['pos']))
                    for t in d['targetons']:
                        t['sgrna'] = sorted(set(p['sgrna'] for p in d['pam']))
            ds.append(d)
    for d, r in pool_map(design_case, ds):
        ctx.count('designs_' + d['mode'])
        check(ctx, d, r)
    ctx.sample({'mode': ds[0]['mode'], 'gtf_ids': [(ds[0].get('gtf') or {}).get('gene_id'), (ds[0].get('gtf') or {}).get('transcript_id')], 'opts': ds[0]['opts']})


def run(ctx: Ctx):
    files(ctx)
    return {'rule': 'S-file: header and field count of every metadata file of random SGE (with/without annotation ids, flags, PAM edits of several sgRNAs spanned by '
                    'long custom deletions, background) and cDNA runs; constant columns echo the run parameters on every mutation and no-op row; cDNA-specific empties; '
                    'VCF header contig and the five SGE_* INFO declarations. Non-trivial = distinct row checked.'}


def replay(ctx: Ctx, path: str) -> int:
    with open(path) as fh:
        v = json.load(fh)
    c = v.get('case', {})
    ctx.known = []
    if 'design' not in c:
        print('replay: obligation-only replay file')
        return 0
    d, r = design_case(c['design'])
    check(ctx, d, r)
    if ctx.violations:
        print(f'VIOLATION property=C20 replay={path}')
        return 1
    print('replay: property holds on this input now')
    return 0
