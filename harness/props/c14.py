"""C14 - reverse-complement symmetry: the mirrored design yields the mirrored library."""
from __future__ import annotations

import collections
import copy
import json

from .. import bg, common, gen, sge
from ..runner import Ctx, coq_eval, coq_dna, coq_z, pool_map

FREE = ('snv', '1del', 'inframe', 'ala', 'stop', 'aa', 'snvre')      # definitions that do not depend on genomic orientation
rc = common.revcomp


def mirror_record(U: str, rec: dict) -> dict | None:
    """Mirror image of a VCF record on the reverse-complemented contig (U: upper-case original contig)."""
    n = len(U)
    if not rec.get('alts'):
        p = n + 1 - (rec['pos'] + len(rec['ref']) - 1)
        return dict(rec, pos=p, ref=rc(rec['ref'].upper()))
    out = dict(rec)
    alts = [a.upper() for a in rec['alts']]
    p, r, a = bg.reported(rec['pos'], rec['ref'].upper(), alts[0])
    if not r:                     # insertion of a before position p  ->  insertion of rc(a) before n + 2 - p
        q = n + 2 - p
        if q - 1 < 1:
            return None
        anchor = rc(U)[q - 2]
        out.update(pos=q - 1, ref=anchor, alts=[anchor + rc(a)] + [anchor + rc(x[1:]) for x in alts[1:]])
    elif not a:                   # deletion of r at [p, p + len - 1]
        q = n + 1 - (p + len(r) - 1)
        if q - 1 < 1:
            return None
        anchor = rc(U)[q - 2]
        out.update(pos=q - 1, ref=anchor + rc(r), alts=[anchor])
    else:
        q = n + 1 - (rec['pos'] + len(rec['ref']) - 1)
        out.update(pos=q, ref=rc(rec['ref'].upper()), alts=[rc(x) for x in alts])
    return out


def mirror(d: dict) -> dict | None:
    U = d['ref'].upper()
    n = len(U)
    m = copy.deepcopy(d)
    m['ref'] = rc(U)
    m['strand'] = '-' if d['strand'] == '+' else '+'
    m['extra_contigs'] = {}
    for t in m['targetons']:
        s, e, a, b = t['ref_start'], t['ref_end'], t['r2_start'], t['r2_end']
        t.update(ref_start=n + 1 - e, ref_end=n + 1 - s, r2_start=n + 1 - b, r2_end=n + 1 - a,
                 ext=[t['ext'][1], t['ext'][0]], action=list(reversed(t['action'])))
    if m.get('gtf'):
        m['gtf']['cds'] = sorted([n + 1 - e, n + 1 - s, f] for s, e, f in d['gtf']['cds'])
        m['gtf']['utr'] = sorted([n + 1 - e, n + 1 - s] for s, e in d['gtf'].get('utr', []))
    if m.get('pam'):
        m['pam'] = [dict(p, pos=n + 1 - p['pos'], ref=common.COMP[p['ref'].upper()], alt=common.COMP[p['alt'].upper()]) for p in d['pam']]
    if m.get('vcfs'):
        for f in m['vcfs']:
            recs = []
            for rec in f['records']:
                if rec.get('contig', d['contig']) != d['contig']:
                    continue
                x = mirror_record(U, rec)
                if x is None:
                    return None
                recs.append(x)
            recs.sort(key=lambda r: r['pos'])
            f['records'] = recs
    if m.get('bg'):
        recs = []
        for rec in d['bg']:
            if rec.get('contig', d['contig']) != d['contig']:
                continue
            x = mirror_record(U, rec)
            if x is None:
                return None
            recs.append(x)
        recs.sort(key=lambda r: r['pos'])
        m['bg'] = recs
    m['opts'] = dict(d['opts'], revcomp=True)
    return m


def row_key(x: dict):
    return (x['mutator'], x['mseq'], x['ref_aa'], x['alt_aa'], x['mut_type'],
            tuple(sorted(y for y in x['pam_mut_annot'].split(';') if y)),
            # custom insertions/deletions/delins: the same edit has several VCF spellings (anchor on the left in one orientation is
            # a shared last base in the other) and an insertion is reported at the base that follows it, so which codon counts as
            # that of "its first or last base" is not orientation-free; compared for substitutions only
            ('*' if (x['mutator'] == 'custom' and len(x['ref']) != len(x['new'])) else x['pam_mut_sgrna_id']),
            x['vcf_alias'], x['vcf_var_id'])


def library(d: dict, r: dict, t: dict):
    name = sge.sge_targeton_name(t.get('contig', d['contig']), t.get('strand', d['strand']), t)
    rows = sge.all_meta_rows(r['files'], name)
    return collections.Counter(row_key(x) for x in rows)


def run_pair(d):
    m = mirror(d)
    d2 = copy.deepcopy(d)
    d2['opts'] = dict(d['opts'], revcomp=True)
    return d2, m, sge.run_design(d2), (sge.run_design(m) if m else None)


def edge_insertions(d: dict) -> bool:
    """A custom insertion at a targeton edge is inside on one side and outside on the other by the VCF convention."""
    for f in d.get('vcfs') or []:
        for rec in f['records']:
            if not rec.get('alts'):
                continue
            p, r, a = bg.reported(rec['pos'], rec['ref'].upper(), rec['alts'][0].upper())
            if not r:
                for t in d['targetons']:
                    if p in (t['ref_start'], t['ref_end'] + 1):
                        return True
    return False


def make_design(rng, i: int) -> dict:
    focus = {'p_bg': 0.0, 'p_custom': 0.6, 'p_pam': 0.8, 'p_gtf': 0.95, 'p_table': 0.3, 'n_exons': rng.choice([1, 2, 3, 3]),
             'cds_mut': list(FREE), 'non_cds_mut': ['snv', '1del'], 'allow_short_cds': True, 'p_no_op': 0.6, 'p_revcomp': 1.0,
             'custom_kinds': ['snv', 'snv', 'mnv', 'ins', 'del', 'delins_u'], 'p_lower': 0.0, 'n_pam': [1, 2, 3], 'p_softmask': 0.0,
             'exon_lens': rng.choice([[4, 5, 6, 7, 9, 12, 17, 21, 30, 31, 32, 45], [5, 7, 8, 10, 11], [1, 1, 2, 2, 3, 5, 8]])}
    if focus['exon_lens'][0] == 1:
        focus['n_exons'] = rng.choice([3, 4, 4])         # micro-exons: codons spread over two or three exons
    if i % 3 == 2:
        # background substitutions (also protein-changing ones and MNVs across codon boundaries: both runs must refuse alike) and non-coding
        # deletions, mirrored with the design; insertions are left to C06 (its recorded finding about the base after an insertion is
        # not mirror symmetric)
        focus.update(p_bg=1.0, p_mask=0.0, bg_kinds=['snv', 'mnv', 'mnv', 'mnv', 'del'], bg_mnv_coding=True, n_bg=[2, 3, 4],
                     bg_coding=rng.choice(['syn', 'any', 'any']))
    for _ in range(50):
        d = gen.gen_sge(rng, focus)
        d['extra_contigs'] = {}
        # a deletion-insertion spelled with a shared last base becomes, mirrored, a record with a shared first base, which VCF
        # convention (and the tool) reads as an anchor: the two spellings differ in whether the shared base is rewritten when a
        # PAM edit sits on it.  Such non-minimal spellings are left out (the VCF convention itself is not mirror symmetric).
        for f in d.get('vcfs') or []:
            f['records'] = [r for r in f['records'] if not (r.get('alts') and len(r['ref']) != len(r['alts'][0]) and len(r['ref']) > 0
                                                          and r['ref'][0].upper() != r['alts'][0][0].upper() and r['ref'][-1].upper() == r['alts'][0][-1].upper())]
        if d.get('bg'):
            # an insertion between a deleted base and a surviving one is attached to the base that follows it: which of the two that is
            # depends on the orientation, so whether it "touches" the deletion is not mirror symmetric - left out
            # the tool validates a background variant for the targeton it *starts* in (C15): for a multi-base variant straddling a targeton
            # boundary the start is inside in one orientation and outside in the other - left out
            def straddles(b):
                p, r, a = bg.reported(b['pos'], b['ref'].upper(), b['alts'][0].upper())
                e = p + max(1, len(r)) - 1
                return any(p < x <= e for t in d['targetons'] for x in (t['ref_start'], t['ref_end'] + 1))
            d['bg'] = [b for b in d['bg'] if not straddles(b)]
            dels = set()
            for b in d['bg']:
                p, r, a = bg.reported(b['pos'], b['ref'].upper(), b['alts'][0].upper())
                if r and not a:
                    dels |= set(range(p - 1, p + len(r) + 1))
            for f in d.get('vcfs') or []:
                keep = []
                for rec in f['records']:
                    if rec.get('alts'):
                        p, r, a = bg.reported(rec['pos'], rec['ref'].upper(), rec['alts'][0].upper())
                        if not r and (p in dels or p - 1 in dels):
                            continue
                    keep.append(rec)
                f['records'] = keep
        if d.get('codon_table') and rng.random() < 0.6:
            # tied ranks: two codons of some amino acids share the top rank (the first in file order wins - on either strand)
            by = {}
            for row in d['codon_table']:
                by.setdefault(row[1], []).append(row)
            for aa, rows in by.items():
                if len(rows) >= 2 and rng.random() < 0.5:
                    a, b = rng.sample(rows, 2)
                    a[3] = b[3] = 'RANK1'
        if not edge_insertions(d):
            return d
    return d


def check_pair(ctx: Ctx, d, m, r1, r2):
    if m is None:
        ctx.count('unmirrorable_skipped')
        return
    ctx.evaluations += 1
    ctx.count('pairs_' + d['strand'])
    if r1['exit'] != r2['exit']:
        ctx.violation('spec_violation', f"design exits {r1['exit']} ({r1['exc']}) but its mirror image exits {r2['exit']} ({r2['exc']} {r2['exc_msg'][:60]})",
                      {'surface': 'file', 'design': d})
        return
    if r1['exit'] != 0:
        ctx.count('both_refused')
        return
    for t, tm in zip(d['targetons'], m['targetons']):
        a, b = library(d, r1, t), library(m, r2, tm)
        if a:
            ctx.nontriv((common.sha(d), t['ref_start']))
        for k in a:
            ctx.count('rows_' + (k[0] or 'no_op'))
        if a != b:
            only_a = list((a - b).elements())[:2]
            only_b = list((b - a).elements())[:2]
            ctx.violation('spec_violation',
                          f"targeton {t['ref_start']}-{t['ref_end']} ({d['strand']}): rows only in the design {[(k[0], k[1][:30], k[2:7]) for k in only_a]}; "
                          f"only in the mirror image {[(k[0], k[1][:30], k[2:7]) for k in only_b]}",
                          {'surface': 'file', 'design': d, 'targeton': t, 'only_design': only_a, 'only_mirror': only_b})


def run_two(args):
    d, m = args
    return sge.run_design(d), sge.run_design(m)


def two_strand_pair(a: dict, b: dict):
    """Two designs on opposite strands laid one after the other on one contig, and the mirror image of the whole: the mirrored second
    design comes first.  -> (design, mirror image, [(index in the design, index in the mirror image)]) or None."""
    from .. import merge
    ma, mb = mirror(a), mirror(b)
    if ma is None or mb is None:
        return None
    d = merge.merge_designs(a, b, True)
    d['opts'] = dict(d['opts'], revcomp=True)
    m = merge.merge_designs(mb, ma, True)
    na, nb = len(a['targetons']), len(b['targetons'])
    return d, m, [(i, nb + i) for i in range(na)] + [(na + j, j) for j in range(nb)]


def two_strand_check(ctx: Ctx, d, m, pairs, r1, r2):
    ctx.evaluations += 1
    ctx.count('two_strand_pairs')
    case = {'surface': 'file', 'kind': 'two_strands', 'design': d, 'mirror': m, 'pairs': [list(p) for p in pairs]}
    if r1['exit'] != r2['exit']:
        ctx.violation('spec_violation', f"two-strand design exits {r1['exit']} ({r1['exc']}) but its mirror image exits {r2['exit']} ({r2['exc']} {r2['exc_msg'][:60]})", case)
        return
    if r1['exit'] != 0:
        ctx.count('two_strand_both_refused')
        return
    for i, j in pairs:
        t, tm = d['targetons'][i], m['targetons'][j]
        a, b = library(d, r1, t), library(m, r2, tm)
        if a:
            ctx.nontriv(('two_strands', common.sha(d), i))
        if a != b:
            only_a = list((a - b).elements())[:2]
            only_b = list((b - a).elements())[:2]
            ctx.violation('spec_violation',
                          f"two strands: targeton {t['ref_start']}-{t['ref_end']} ({t.get('strand')}): rows only in the design {[(k[0], k[1][:30], k[2:7]) for k in only_a]}; "
                          f"only in the mirror image {[(k[0], k[1][:30], k[2:7]) for k in only_b]}", dict(case, targeton_index=i))


def two_strand_stage(ctx: Ctx):
    """A gene on each strand of one contig, background variants around one of them only, next to the mirror image of the whole contig
    (own generator state: the designs of explore stay what they were)."""
    import random
    rng = random.Random(f'C14-two-strands-{ctx.seed}')
    n = ctx.n(16, 160)
    jobs, tries = [], 0
    while len(jobs) < n and tries < 30 * n:
        tries += 1
        a, b = make_design(rng, 2), make_design(rng, 0)
        if a['strand'] == b['strand'] or not a.get('gtf') or not b.get('gtf') or not a.get('bg'):
            continue
        for x in (a, b):
            x.pop('codon_table', None)
            x.pop('vcfs', None)
            for t in x['targetons']:
                t['sgrna'] = ['sg1'] if t.get('sgrna') else []
            for e in x.get('pam') or []:
                e['sgrna'] = 'sg1'
        b['opts'] = dict(a['opts'])
        if rng.random() < 0.5:
            a, b = b, a            # the gene with background variants first or second on the contig
        tp = two_strand_pair(a, b)
        if tp is not None:
            jobs.append(tp)
    res = pool_map(run_two, [(d, m) for d, m, _ in jobs], chunksize=2)
    for (d, m, pairs), (r1, r2) in zip(jobs, res):
        two_strand_check(ctx, d, m, pairs, r1, r2)


def explore(ctx: Ctx):
    n = ctx.n(400, 5000)
    designs = [make_design(ctx.rng, i) for i in range(n)]
    results = pool_map(run_pair, designs, chunksize=2)
    for d, m, r1, r2 in results:
        check_pair(ctx, d, m, r1, r2)
    d0 = results[0][0]
    ctx.sample({'design_targetons': d0['targetons'], 'strand': d0['strand'], 'mirror_targetons': results[0][1]['targetons'] if results[0][1] else None})
    # negative control: a row changed in one library must be noticed
    d, m, r1, r2 = next((x for x in results if x[1] is not None and x[2]['exit'] == 0 and any(library(x[0], x[2], t) for t in x[0]['targetons'])), results[0])
    if m is not None and r1['exit'] == 0:
        t = next(t for t in d['targetons'] if library(d, r1, t))
        a = library(d, r1, t)
        b = collections.Counter(a)
        k = next(iter(b))
        b[k] -= 1
        b[(k[0], k[1] + 'A') + k[2:]] += 1
        ctx.controls['run'] += 1
        if a != +b:
            ctx.controls['rejected'] += 1
    if ctx.controls['run'] != ctx.controls['rejected']:
        ctx.violation('control', 'comparison accepted a changed row', broken='negative control', no_input=True)


def model_tie(ctx: Ctx):
    """The mirror lemmas are about the model: tie the model's exon algebra to the code on mirrored pairs (S-api)."""
    common.use_repo()
    from valiant.exon import Exon
    from valiant.strings.strand import Strand
    from valiant.transcript import get_range_cds_exts
    from valiant.uint_range import UIntRange
    rng = ctx.rng
    exprs = []
    for _ in range(ctx.n(300, 3000)):
        n = 200
        s = rng.randint(5, 150)
        e = s + rng.randint(0, 40)
        f = rng.randint(0, 2)
        lo = rng.randint(s, e)
        hi = rng.randint(lo, e)
        try:
            p = get_range_cds_exts(Strand('+'), Exon(s, e, 0, f), UIntRange(lo, hi))
            q = get_range_cds_exts(Strand('-'), Exon(n + 1 - e, n + 1 - s, 0, f), UIntRange(n + 1 - hi, n + 1 - lo))
        except Exception as ex:
            ctx.violation('correspondence', f'get_range_cds_exts raised {ex}', broken='S-api get_range_cds_exts', no_input=True)
            return
        ctx.evaluations += 1
        if (p[1], p[0]) != tuple(q):
            ctx.violation('spec_violation', f'exon [{s},{e}] frame {f} region [{lo},{hi}]: extensions {p} on +, {q} on the mirrored - exon',
                          {'surface': 'api', 'exon': [s, e, f], 'region': [lo, hi]})
        exprs.append(f'match range_cds_exts Plus (mkEx {s} {e} 0 {f}) (mkRange {lo} {hi}) with Ok (a, b) => (Z.eqb a {p[0]}) && (Z.eqb b {p[1]}) | Err _ => false end')
    bad, err = coq_eval(['Model.Base', 'Model.Pattern', 'Model.Transcript'], exprs)
    ctx.corr['cases'] += len(exprs)
    if err:
        ctx.violation('correspondence', 'model evaluation failed: ' + err[:300], broken='coqc cases (C14)', no_input=True)
    for i in bad:
        ctx.corr['disagreements'] += 1
        ctx.violation('correspondence', 'impl != model for get_range_cds_exts', {'expr': exprs[i]}, broken='correspondence S-api get_range_cds_exts')


def run(ctx: Ctx):
    explore(ctx)
    model_tie(ctx)
    two_strand_stage(ctx)
    return {'rule': 'Metamorphic on the real tool: each random design (1-3 exons, every frame, regions starting/ending mid-codon and next to '
                    'junctions, PAM edits, custom SNV/MNV/insertions/deletions/delins, custom codon tables, no-op oligos, orientation-free '
                    'mutators) is run next to its mirror image (reference reverse-complemented, every coordinate, the strand, both vectors '
                    'and all variants mirrored) with --revcomp-minus-strand; per targeton the multisets of (mutator, mseq, ref_aa, alt_aa, '
                    'mut_type, pam_mut_annot as a multiset, pam_mut_sgrna_id, alias, id) must coincide and both runs must be accepted or refused alike; a third of '
                    'the designs carry mirrored background variants (SNVs, MNVs also across codon boundaries and protein-changing, non-coding deletions). S-api: get_range_cds_exts on mirrored '
                    'exon/region pairs vs the model. Non-trivial = a targeton with rows.'}


def replay(ctx: Ctx, path: str) -> int:
    with open(path) as fh:
        v = json.load(fh)
    case = v.get('case', {})
    if 'design' not in case:
        print('replay: nothing to run (obligation-only replay file)')
        return 0
    common.use_repo()
    if case.get('kind') == 'two_strands':
        r1, r2 = run_two((case['design'], case['mirror']))
        two_strand_check(ctx, case['design'], case['mirror'], [tuple(p) for p in case['pairs']], r1, r2)
    else:
        check_pair(ctx, *run_pair(case['design']))
    if ctx.violations:
        print(f'VIOLATION property=C14 replay={path}')
        return 1
    print('replay: property holds on this input now')
    return 0
