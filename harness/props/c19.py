"""C19 - designs that cannot be honoured are refused, never silently mis-designed."""
from __future__ import annotations

import copy
import json
import random

from .. import bg, codonspec, common, gen, sge
from ..runner import Ctx, coq_eval, coq_list, coq_opt, coq_str, coq_z, pool_map

IMPORTS = ['Model.Base', 'Model.Pattern', 'Model.Transcript', 'Model.Mutators', 'Model.Refusal']
LIB = ('_meta.csv', '_meta_excluded.csv', '_unique.csv', '_ref.vcf', '_pam.vcf')
CDS_MUT = ['inframe', 'ala', 'stop', 'aa', 'snvre']
NT_MUT = ['snv', '1del', '2del0', '3del1']


def regions(t):
    a, b = t['r2_start'], t['r2_end']
    return [(a - t['ext'][0], a - 1) if t['ext'][0] else None, (a, b), (b + 1, b + t['ext'][1]) if t['ext'][1] else None]


def first_base_indel(case: dict) -> bool:
    return 'Invalid genomic position 0' in (case.get('msg') or '') + ' '.join(case.get('critical') or [])


MATCHERS = {'first_base_indel': first_base_indel}


def replay_known(ctx, k) -> bool:
    with open(common.VERIF + '/' + k['replay']) as fh:
        d = json.load(fh)['case']['design']
    r = run_case(d)
    return r['exit'] != 0 and first_base_indel(r)


# ---------------------------------------------------------------- injectors: (design, offending targeton index | None) or None

def _pick(rng, d):
    i = rng.randrange(len(d['targetons']))
    return i, d['targetons'][i]


def inj_cds_mutator_noncoding(rng, d):
    exons = gen.exons_of(d)
    i, t = _pick(rng, d)
    for k, reg in enumerate(regions(t)):
        if reg and gen.region_class(exons, *reg) == 'nc':
            g = [x for x in t['action'][k].split(', ') if x]
            t['action'][k] = ', '.join(sorted(set(g + [rng.choice(CDS_MUT)])))
            return d, i
    return None


def inj_cds_mutator_no_annotation(rng, d):
    d.pop('gtf', None)
    d.pop('bg', None)
    d.pop('mask', None)
    i, t = _pick(rng, d)
    for tt in d['targetons']:
        tt['action'] = [', '.join(m for m in g.split(', ') if m and m not in CDS_MUT) for g in tt['action']]
    t['action'][1] = ', '.join(sorted(set([x for x in t['action'][1].split(', ') if x] + [rng.choice(CDS_MUT)])))
    return d, i


def _straddle(rng, d, kind, muts):
    exons = gen.exons_of(d)
    n = len(d['ref'])
    i, t = _pick(rng, d)
    for _ in range(40):
        s, e, _f = rng.choice(exons)
        if kind == 'start':            # intron -> exon
            a, b = s - rng.randint(1, 4), s + rng.randint(0, 4)
        elif kind == 'end':            # exon -> intron
            a, b = e - rng.randint(0, 4), e + rng.randint(1, 4)
        elif kind == 'swallow':        # both ends intronic, a whole exon inside
            a, b = s - rng.randint(1, 3), e + rng.randint(1, 3)
        else:                           # two exons
            j = exons.index((s, e, _f))
            if j + 1 >= len(exons):
                continue
            a, b = e - rng.randint(0, 2), exons[j + 1][0] + rng.randint(0, 2)
        if kind != 'two' and (gen.exon_at(exons, a) if kind in ('start', 'swallow') else gen.exon_at(exons, b)):
            continue
        if kind == 'swallow' and any(x != (s, e, _f) and x[0] <= b and x[1] >= a for x in exons):
            continue
        rs, re_ = max(2, a - rng.randint(3, 15)), min(n - 2, b + rng.randint(3, 15))
        if a <= rs or b >= re_:
            continue
        which = rng.choice([0, 1, 2])
        if which == 1:
            t.update(ref_start=rs, ref_end=re_, r2_start=a, r2_end=b, ext=[0, 0], action=['', muts, ''])
        elif which == 0 and a - 1 > rs:        # the straddling region is region 1
            t.update(ref_start=rs, ref_end=re_, r2_start=b + 1, r2_end=b + 1, ext=[b - a + 1, 0], action=[muts, '', ''])
            if b + 1 >= re_:
                continue
        elif which == 2 and b + 1 < re_:       # region 3
            t.update(ref_start=rs, ref_end=re_, r2_start=a - 1, r2_end=a - 1, ext=[0, b - a + 1], action=['', '', muts])
            if a - 1 <= rs:
                continue
        else:
            continue
        t['sgrna'] = []
        # keep the other targetons distinct
        if sum(1 for x in d['targetons'] if (x['ref_start'], x['ref_end']) == (t['ref_start'], t['ref_end'])) > 1:
            continue
        return d, i
    return None


def inj_straddle_start_nt(rng, d):
    return _straddle(rng, d, 'start', rng.choice(NT_MUT))


def inj_straddle_end_nt(rng, d):
    return _straddle(rng, d, 'end', rng.choice(NT_MUT))


def inj_straddle_cds(rng, d):
    return _straddle(rng, d, rng.choice(['start', 'end']), rng.choice(CDS_MUT))


def inj_straddle_two_exons(rng, d):
    return _straddle(rng, d, 'two', rng.choice(NT_MUT + CDS_MUT))


def inj_region_swallows_exon(rng, d):
    return _straddle(rng, d, 'swallow', rng.choice(NT_MUT))


def inj_region_exceeds_targeton(rng, d):
    i, t = _pick(rng, d)
    k = rng.choice(['r2_before', 'r2_after', 'ext1', 'ext3', 'r2_inverted', 'ref_inverted'])
    if k == 'r2_before':
        t['r2_start'] = t['ref_start'] - rng.randint(1, 3)
        t['ext'][0] = 0
    elif k == 'r2_after':
        t['r2_end'] = t['ref_end'] + rng.randint(1, 3)
        t['ext'][1] = 0
    elif k == 'ext1':
        t['ext'][0] = t['r2_start'] - t['ref_start'] + rng.randint(1, 3)
    elif k == 'ext3':
        t['ext'][1] = t['ref_end'] - t['r2_end'] + rng.randint(1, 3)
    elif k == 'r2_inverted':
        t['r2_start'], t['r2_end'] = t['r2_end'] + 1, t['r2_start']
        if t['r2_start'] <= t['r2_end']:
            return None
    else:
        t['ref_start'], t['ref_end'] = t['ref_end'], t['ref_start'] - 1
    return d, None        # refused while loading the targeton table: nothing at all may be written


def _coding_pos(d, t):
    exons = gen.exons_of(d)
    fr = codonspec.Frame(exons, d['strand'])
    return [p for p in range(t['ref_start'] + 1, t['ref_end']) if fr.codon_positions(p) and max(fr.codon_positions(p)) - min(fr.codon_positions(p)) == 2], fr


def inj_ppe_same_position(rng, d):
    i, t = _pick(rng, d)
    U = d['ref'].upper()
    p = rng.randint(t['ref_start'], t['ref_end'])
    alts = [c for c in 'ACGT' if c != U[p - 1]]
    d['pam'] = [e for e in d.get('pam') or [] if e['pos'] != p]
    ids = rng.choice([['sgA', 'sgA'], ['sgA', 'sgB']])
    d['pam'] += [{'pos': p, 'ref': U[p - 1], 'alt': alts[0], 'sgrna': ids[0]}, {'pos': p, 'ref': U[p - 1], 'alt': alts[1], 'sgrna': ids[1]}]
    rng.shuffle(d['pam'])
    t['sgrna'] = sorted(set((t.get('sgrna') or []) + ids))
    return d, i


def inj_ppe_same_codon(rng, d, shift=False):
    i, t = _pick(rng, d)
    pos, fr = _coding_pos(d, t)
    cand = [p for p in pos if all(t['ref_start'] <= q <= t['ref_end'] for q in fr.codon_positions(p))]
    if not cand:
        return None
    p = rng.choice(cand)
    cp = sorted(fr.codon_positions(p))
    q1, q2 = rng.sample(cp, 2)
    U = d['ref'].upper()
    d['pam'] = [e for e in d.get('pam') or [] if e['pos'] not in cp]
    for q, sid in ((q1, 'sgA'), (q2, rng.choice(['sgA', 'sgB']))):
        d['pam'].append({'pos': q, 'ref': U[q - 1], 'alt': rng.choice([c for c in 'ACGT' if c != U[q - 1]]), 'sgrna': sid})
    t['sgrna'] = sorted(set((t.get('sgrna') or []) + ['sgA', 'sgB']))
    if shift:
        # a non-coding background indel upstream (lower coordinate) inside the context: positions are lifted, the rule must not move
        exons = gen.exons_of(d)
        lo = max(4, min(exons[0][0], min(x['ref_start'] for x in d['targetons'])) + 1)
        spots = [x for x in range(lo, min(cp) - 3) if not any(gen.exon_at(exons, y) for y in range(x - 1, x + 4))
                 and not any(abs(x - e['pos']) < 3 for e in d['pam'])
                 and not any(abs(x - b) < 4 for tt in d['targetons'] for b in (tt['ref_start'], tt['ref_end'], tt['r2_start'], tt['r2_end'],
                                                                            tt['r2_start'] - tt['ext'][0], tt['r2_end'] + tt['ext'][1]))]
        if not spots:
            return None
        x = rng.choice(spots)
        d['bg'] = [{'pos': x, 'ref': U[x - 1], 'alts': [U[x - 1] + gen.rand_dna(rng, rng.choice([1, 2]))], 'id': 'bg0'}]
        d.pop('mask', None)
        d.pop('vcfs', None)
    return d, i


def inj_ppe_same_codon_shifted(rng, d):
    return inj_ppe_same_codon(rng, d, shift=True)


def inj_bad_label(rng, d):
    i, t = _pick(rng, d)
    k = rng.randrange(3)
    bad = rng.choice(['snvx', 'del', '0del', '2dell', 'ALA', 'snv re', '2del-1', '1delx', 'stop!'])
    g = [x for x in t['action'][k].split(', ') if x]
    t['action'][k] = ', '.join(g + [bad])
    return d, i


def inj_bad_ext_vector(rng, d):
    i, t = _pick(rng, d)
    t['ext_raw'] = rng.choice(['1', '1, 2, 3', 'a, b', '', '1; 2', '1.5, 2', '-1, 0'])
    return d, None


def inj_bad_action_vector(rng, d):
    i, t = _pick(rng, d)
    t['action_raw'] = rng.choice(['(snv), (snv)', 'snv, snv, snv', '(snv) (snv) (snv)', '[snv], [], []', '(snv), (1del), (snv', ''])
    return d, None


def inj_bad_header(rng, d):
    h = list(sge.TARGETON_HEADER)
    k = rng.choice(['rename', 'drop', 'swap', 'extra'])
    if k == 'rename':
        h[rng.randrange(len(h))] += '_x'
    elif k == 'drop':
        h.pop(rng.randrange(len(h)))
    elif k == 'swap':
        h[0], h[1] = h[1], h[0]
    else:
        h.append('comment')
    d['targeton_header'] = h
    return d, None


def inj_bad_manifest_header(rng, d):
    d['vcfs'] = d.get('vcfs') or [{'alias': 'al0', 'id_tag': None, 'records': []}]
    d['manifest_header'] = rng.choice([['alias', 'vcf_id_tag', 'vcf_path'], ['vcf_alias', 'vcf_path'], ['vcf_alias', 'vcf_id_tag', 'vcf_path', 'x']])
    return d, None


def inj_bad_adaptor(rng, d):
    d['opts'][rng.choice(['adaptor5', 'adaptor3'])] = rng.choice(['ACGN', 'acgt', 'AC-GT', 'ACGU', 'X'])
    return d, None


def inj_ambiguous_base(rng, d):
    i, t = _pick(rng, d)
    p = rng.randint(t['ref_start'], t['ref_end'])
    s = list(d['ref'])
    s[p - 1] = rng.choice(['N', 'n', 'R', 'Y'])
    d['ref'] = ''.join(s)
    d['pam'] = [e for e in d.get('pam') or [] if e['pos'] != p]
    if d.get('vcfs'):
        for f in d['vcfs']:
            f['records'] = [r for r in f['records'] if not (r['pos'] <= p < r['pos'] + len(r['ref']))]
    if d.get('bg'):
        d['bg'] = [r for r in d['bg'] if not (r['pos'] <= p < r['pos'] + len(r['ref']))]
    return d, 'first_covering:%d' % p


def inj_missing_contig(rng, d):
    i, t = _pick(rng, d)
    t['contig'] = 'chrMissing'
    t['sgrna'] = []
    return d, i


def inj_missing_vcf(rng, d):
    d['vcfs'] = d.get('vcfs') or [{'alias': 'al0', 'id_tag': None, 'records': []}]
    rng.choice(d['vcfs'])['missing'] = True
    return d, None


def inj_missing_info_tag(rng, d):
    d['vcfs'] = d.get('vcfs') or [{'alias': 'al0', 'id_tag': None, 'records': []}]
    f = rng.choice(d['vcfs'])
    f['id_tag'] = 'NOTDECLARED'
    f['declared_tags'] = []
    for r in f['records']:
        r['info'] = {}
    return d, None


def inj_pam_without_sgrna(rng, d):
    i, t = _pick(rng, d)
    U = d['ref'].upper()
    p = rng.randint(t['ref_start'], t['ref_end'])
    d['pam'] = [e for e in d.get('pam') or [] if e['pos'] != p] + [{'pos': p, 'ref': U[p - 1], 'alt': rng.choice([c for c in 'ACGT' if c != U[p - 1]]), 'sgrna': None}]
    return d, None


SGE_INJECTORS = [inj_cds_mutator_noncoding, inj_cds_mutator_no_annotation, inj_straddle_start_nt, inj_straddle_end_nt, inj_straddle_cds,
                 inj_straddle_two_exons, inj_region_swallows_exon, inj_region_exceeds_targeton, inj_ppe_same_position, inj_ppe_same_codon,
                 inj_ppe_same_codon_shifted, inj_bad_label, inj_bad_ext_vector, inj_bad_action_vector, inj_bad_header, inj_bad_manifest_header,
                 inj_bad_adaptor, inj_ambiguous_base, inj_missing_contig, inj_missing_vcf, inj_missing_info_tag, inj_pam_without_sgrna]


def cdna_inject(rng, d, kind):
    i = rng.randrange(len(d['targetons']))
    t = d['targetons'][i]
    annot = {a[0]: a for a in d.get('annot') or [] if a[3] != ''}
    a = annot.get(t['seq_id'])
    if kind == 'cds_mutator_noncoding':
        if a:
            if a[3] > 4:
                t.update(ref_start=1, ref_end=a[3] - 1, r2_start=1, r2_end=a[3] - 1)
            else:
                return None
        t['action'] = sorted(set([m for m in t['action'] if m not in CDS_MUT] + [rng.choice(CDS_MUT)]))
        return d, i
    if kind == 'partial_cds_region':
        if not a or a[3] < 3:
            return None
        t.update(ref_start=max(1, a[3] - 5), ref_end=a[3] + 6, r2_start=a[3] - 1, r2_end=a[3] + 3, action=[rng.choice(NT_MUT + CDS_MUT)])
        return d, i
    if kind == 'region_contains_cds':
        # the whole coding sequence and at least one untranslated base on each side: still a partial-CDS region (nucleotide-level mutators only:
        # a codon-level one would be refused for its own reason)
        n = len(d['seqs'][t['seq_id']])
        if not a or a[3] < 2 or a[4] > n - 1:
            return None
        lo, hi = a[3] - rng.randint(1, min(3, a[3] - 1)), a[4] + rng.randint(1, min(3, n - a[4]))
        t.update(ref_start=max(1, lo - rng.randint(0, 4)), ref_end=min(n, hi + rng.randint(0, 4)), r2_start=lo, r2_end=hi, action=[rng.choice(NT_MUT)])
        return d, i
    if kind == 'region_exceeds_targeton':
        t['r2_end'] = t['ref_end'] + rng.randint(1, 3)
        return d, None
    if kind == 'bad_label':
        t['action'] = list(t['action']) + [rng.choice(['snvx', 'del', '0del', '2dell'])]
        return d, i
    if kind == 'bad_header':
        h = list(sge.CDNA_HEADER)
        h[rng.randrange(len(h))] += '_x'
        d['targeton_header'] = h
        return d, None
    if kind == 'missing_sequence':
        t['seq_id'] = 'absent_seq'
        return d, None
    if kind == 'ambiguous_base':
        s = list(d['seqs'][t['seq_id']])
        s[rng.randint(t['ref_start'], t['ref_end']) - 1] = 'N'
        d['seqs'][t['seq_id']] = ''.join(s)
        return d, None
    if kind == 'bad_adaptor':
        d['opts'][rng.choice(['adaptor5', 'adaptor3'])] = 'ACGN'
        return d, None
    if kind == 'bad_annot_header':
        if not d.get('annot'):
            return None
        d['annot_header'] = ['seq_id', 'gene', 'transcript_id', 'cds_start', 'cds_end']
        return d, None
    return None


CDNA_KINDS = ['cds_mutator_noncoding', 'partial_cds_region', 'region_exceeds_targeton', 'bad_label', 'bad_header', 'missing_sequence',
              'ambiguous_base', 'bad_adaptor', 'bad_annot_header']


# ---------------------------------------------------------------- running and judging

def run_case(d):
    r = sge.run_design(d)
    out = {'exit': r['exit'], 'exc': r['exc'], 'msg': (r.get('exc_msg') or '')[:160], 'files': sorted(r['files']),
           'critical': [m for lvl, m in r['log'] if lvl == 'CRITICAL'][:2]}
    c2 = d.get('clone_contig')
    if c2 and r['exit'] == 0:
        # the design repeated on a second contig: every library file has a twin with the same content up to the contig and gene names
        c1 = d['contig']
        bad = []
        for f, txt in r['files'].items():
            if f.startswith(c1 + '_') and f.endswith(LIB):
                twin = r['files'].get(c2 + f[len(c1):])
                if twin is None:
                    bad.append(f'{c2 + f[len(c1):]} missing')
                else:
                    g = d.get('gtf') or {}
                    t2 = twin.replace(c2, c1)
                    for k in ('gene_id', 'transcript_id'):
                        if g.get(k):
                            t2 = t2.replace(g[k] + '_2', g[k])
                    if t2 != txt:
                        bad.append(f'{f} differs from its twin on {c2}')
        out['twin_problems'] = bad[:4]
    return out


def offending_name(d, idx):
    if isinstance(idx, str) and idx.startswith('first_covering:'):
        p = int(idx.split(':')[1])
        idx = next(i for i, t in enumerate(d['targetons']) if t['ref_start'] <= p <= t['ref_end'])
    t = d['targetons'][idx]
    return sge.sge_targeton_name(t.get('contig', d['contig']), d['strand'], t)


def judge_invalid(ctx: Ctx, d, idx, kind, r):
    ctx.evaluations += 1
    ctx.count('invalid:' + kind)
    if r['exit'] == 0:
        ctx.violation('spec_violation', f'invalid design ({kind}) was accepted: exit 0, files {r["files"][:4]}',
                      {'surface': 'file', 'design': d, 'kind': kind, 'offending': idx})
        return
    lib = [f for f in r['files'] if f.endswith(LIB)]
    if d['mode'] == 'sge' and idx is not None:
        name = offending_name(d, idx)
        left = [f for f in lib if any(f == name + s for s in LIB)]
    elif idx is not None:
        # cDNA file names carry a hash of the row: the files written must be among those of the run without the offending targeton
        d0 = copy.deepcopy(d)
        d0['targetons'].pop(idx)
        ok = set(f for f in run_case(d0)['files'] if f.endswith(LIB)) if d0['targetons'] else set()
        left = [f for f in lib if f not in ok]
    else:
        left = lib
    if left:
        ctx.violation('spec_violation', f'invalid design ({kind}) refused with exit {r["exit"]} but library files were written: {left[:4]}',
                      {'surface': 'file', 'design': d, 'kind': kind, 'offending': idx, 'files': left})
        return
    ctx.nontriv(('invalid', kind, d['mode']))
    if r['exc'] is not None:
        ctx.count('refused_by_traceback:' + kind)


def judge_valid(ctx: Ctx, d, r):
    ctx.evaluations += 1
    ctx.count('valid_' + d['mode'])
    if r['exit'] != 0:
        ctx.violation('spec_violation', f"valid design refused: exit {r['exit']} {r['exc']} {r['msg'][:80]} {r['critical'][:1]}",
                      {'surface': 'file', 'design': d, 'exc': r['exc'], 'msg': r['msg'], 'critical': r['critical']})
    else:
        ctx.nontriv(('valid', common.sha(d)))
        if d.get('merged'):
            ctx.count('valid_two_strands_' + ('two_contigs' if d.get('extra_contigs') else 'one_contig'))
        if d.get('clone_contig'):
            ctx.count('valid_two_annotated_contigs')
            if r.get('twin_problems'):
                ctx.violation('spec_violation', f"design repeated on a second contig: {r['twin_problems']}",
                              {'surface': 'file', 'design': d, 'problems': r['twin_problems']})


def base_design(rng, i):
    focus = {'p_bg': 0.0, 'p_custom': 0.5, 'p_pam': 0.6, 'p_gtf': 1.0, 'p_table': 0.1, 'n_targetons': rng.choice([1, 2, 3]), 'n_exons': rng.choice([2, 3]),
             'exon_lens': [9, 12, 17, 21, 30, 31, 32], 'allow_short_cds': True, 'allow_junction_pam': True, 'p_softmask': 0.2}
    d = gen.gen_sge(rng, focus)
    d['extra_contigs'] = {}
    return d


def valid_design(rng, i):
    if i % 4 == 3:
        return gen.gen_cdna(rng, {'p_table': 0.2})
    if i % 8 == 1:
        # two valid designs in one run: a gene on each strand, on one contig (one after the other) or on two contigs
        parts = []
        for strand in '+-':
            for _ in range(60):
                p = valid_design_one(rng, 2, strand)
                # with --gff the tool asserts a transcript for every contig and strand that has targetons: both parts annotated or neither
                if not p.get('clone_contig') and (not parts or bool(p.get('gtf')) == bool(parts[0].get('gtf'))):
                    break
            p['extra_contigs'] = {}
            for f in p.get('vcfs') or []:
                f['records'] = [r for r in f['records'] if r.get('contig', p['contig']) == p['contig']]
            parts.append(p)
        from .. import merge
        d = merge.merge_designs(parts[0], parts[1], same_contig=rng.random() < 0.6)
        d['merged'] = True
        return d
    return valid_design_one(rng, i, None)


def valid_design_one(rng, i, strand):
    focus = {'p_bg': 0.35, 'p_custom': 0.5, 'p_pam': 0.7, 'p_gtf': 0.85, 'p_table': 0.15, 'allow_short_cds': True, 'allow_junction_pam': True,
             'bg_kinds': ['snv', 'snv', 'ins', 'del', 'mnv'], 'p_mask': 0.2, 'exon_lens': rng.choice([[4, 5, 6, 7, 9, 12, 17, 21, 30, 31, 32, 45], [2, 3, 4, 5, 8]]),
             'n_exons': rng.choice([1, 2, 3, 4])}
    if strand:
        focus['strand'] = strand
    for _ in range(20):
        d = gen.gen_sge(rng, focus)
        # a background deletion that removes an end of a targeton or of a region leaves nothing to design there: not a valid design
        # (nor, since the extension lengths are kept as lengths in the background coordinate system, one inside region 1 or 3)
        if not d.get('bg') or (bg.lift_design(d) is not None and not _indel_in_flank(d)):
            if d.get('pam') and rng.random() < 0.3:
                # the PAM VCF also lists an edit of a guide that no targeton selects, at the position of a selected one: still valid
                e = rng.choice(d['pam'])
                d['pam'].append(dict(e, sgrna='sgUnused', alt=rng.choice([x for x in 'ACGT' if x not in (e['ref'].upper(), e['alt'].upper())])))
            if i % 5 == 0:
                # the same design once more on a second contig (its own gene, PAM edits, custom and background records): still valid
                d['extra_contigs'] = {}
                d['clone_contig'] = 'chr2'
                for f in d.get('vcfs') or []:       # records the generator wrote for the (former) extra contig chr2 would now land on the twin
                    f['records'] = [r for r in f['records'] if r.get('contig', d['contig']) == d['contig']]
            return d
    d.pop('bg', None)
    d.pop('mask', None)
    return d


def _indel_in_flank(d) -> bool:
    for p, r, a in bg.unmasked_variants(d):
        if len(r) == len(a):
            continue
        span = range(p - 1, p + max(1, len(r)) + 1)
        for t in d['targetons']:
            for reg in (regions(t)[0], regions(t)[2]):
                if reg and any(reg[0] <= x <= reg[1] for x in span):
                    return True
    return False


def explore(ctx: Ctx):
    rng = ctx.rng
    per = ctx.n(14, 80)
    jobs, meta = [], []
    for inj in SGE_INJECTORS:
        made = 0
        for attempt in range(per * 8):
            if made >= per:
                break
            d = base_design(rng, attempt)
            # the offending targeton first, in the middle or last
            out = inj(rng, copy.deepcopy(d))
            if out is None:
                continue
            d2, idx = out
            # an invalid design stays invalid whatever the force flags (they only concern background variants): a third of them carry both
            if d2.get('opts') is not None and rng.random() < 0.33:
                d2['opts'] = dict(d2['opts'], force_ns=True, force_fs=True)
            jobs.append(d2)
            meta.append(('invalid', inj.__name__[4:], idx))
            made += 1
        if made == 0:
            ctx.violation('correspondence', f'no design could be built for the invalid class {inj.__name__[4:]}', broken='generator', no_input=True)
    for kind in CDNA_KINDS:
        made = 0
        for attempt in range(per * 8):
            if made >= max(2, per // 2):
                break
            out = cdna_inject(rng, gen.gen_cdna(rng, {}), kind)
            if out is None:
                continue
            jobs.append(out[0])
            meta.append(('invalid', 'cdna_' + kind, out[1]))
            made += 1
    for i in range(ctx.n(300, 3000)):
        jobs.append(valid_design(rng, i))
        meta.append(('valid', None, None))
    # a deliberate class (own generator state, after everything else): a cDNA region that contains the whole coding sequence
    import random
    r2 = random.Random(f'C19-cdna-region-contains-cds-{ctx.seed}')
    made = 0
    for attempt in range(per * 40):
        if made >= max(3, per // 2):
            break
        out = cdna_inject(r2, gen.gen_cdna(r2, {}), 'region_contains_cds')
        if out is None:
            continue
        jobs.append(out[0])
        meta.append(('invalid', 'cdna_region_contains_cds', out[1]))
        made += 1
    results = pool_map(run_case, jobs, chunksize=2)
    for d, (cls, kind, idx), r in zip(jobs, meta, results):
        if cls == 'invalid':
            judge_invalid(ctx, d, idx, kind, r)
        else:
            judge_valid(ctx, d, r)
    k = next(i for i, m in enumerate(meta) if m[0] == 'invalid')
    ctx.sample({'invalid_kind': meta[k][1], 'targetons': jobs[k]['targetons'], 'result': results[k]})
    api_tie(ctx)


def api_tie(ctx: Ctx):
    """The refusal rules of the model against the real functions (S-api): region -> exon, targeton validation, mutator labels."""
    common.use_repo()
    import sqlite3
    from valiant.db import init_db
    from valiant.exon import Exon
    from valiant.loaders.errors import InvalidMutator
    from valiant.loaders.mutator_config import MutatorConfig
    from valiant.queries import insert_exons
    from valiant.strings.strand import Strand
    from valiant.targeton import InvalidTargetonRegion, get_targeton_region_exon_id
    from valiant.uint_range import UIntRange
    rng = ctx.rng
    exprs = []
    for _ in range(ctx.n(40, 300)):
        k = rng.randint(1, 3)
        pos, ex = rng.randint(5, 12), []
        for j in range(k):
            ln = rng.randint(1, 9)
            ex.append((pos, pos + ln - 1))
            pos += ln + rng.randint(1, 6)
        conn = sqlite3.connect(':memory:')
        init_db(conn)
        insert_exons(conn, Strand('+'), [Exon(s, e, j, 0) for j, (s, e) in enumerate(ex)])
        for _r in range(12):
            a = rng.randint(2, pos + 2)
            b = a + rng.randint(0, 12)
            try:
                got = get_targeton_region_exon_id(conn, UIntRange(a, b))
                res = f'(Ok {coq_opt(coq_z(got) if got is not None else None)})'
            except InvalidTargetonRegion:
                res = '(Err InvalidTargetonRegion)'
            inside = [j for j, (s, e) in enumerate(ex) if s <= a and b <= e]
            touches = [j for j, (s, e) in enumerate(ex) if s <= b and e >= a]
            ctx.evaluations += 1
            want = 'none' if not touches else ('one' if inside else 'err')
            have = 'err' if res.startswith('(Err') else ('none' if 'None' in res else 'one')
            if want != have:
                ctx.violation('spec_violation', f'region [{a},{b}] against exons {ex}: expected {want}, got {res}',
                              {'surface': 'api', 'region': [a, b], 'exons': ex})
            exl = coq_list(f'mkEx {s} {e} {j} 0' for j, (s, e) in enumerate(ex))
            exprs.append(f'res_eqb (option_eqb Z.eqb) (region_exon_id {exl} (mkRange {a} {b})) {res}')
        conn.close()
    for lab in ['snv', 'snvre', 'ala', 'stop', 'aa', 'inframe', '1del', '2del0', '2del1', '10del3', '0del', '0del1', 'del', '1delx', 'snvx', 'SNV', '', '2del-1',
                ' snv', '3del', '03del2', '1del0', '2dell']:
        try:
            m = MutatorConfig.parse(lab)
            res = f'(Ok {("(MDelK %d %d)" % (m.pt.span, m.pt.offset)) if m.pt else {"snv": "MSnv", "snvre": "MSnvRe", "ala": "MAla", "stop": "MStop", "aa": "MAa", "inframe": "MInframe"}[m.type.value]})'
        except InvalidMutator:
            res = '(Err InvalidMutator)'
        ctx.evaluations += 1
        exprs.append(f'res_eqb mkind_eqb (parse_label {coq_str(lab)}) {res}')
    bad, err = coq_eval(IMPORTS, exprs)
    ctx.corr['cases'] += len(exprs)
    if err:
        ctx.violation('correspondence', 'model evaluation failed: ' + err[:300], broken='coqc cases (C19)', no_input=True)
    for k in bad:
        ctx.corr['disagreements'] += 1
        ctx.violation('correspondence', f'model != implementation: {exprs[k][:300]}', {'expr': exprs[k][:600]}, broken='correspondence region_exon_id / parse_label')
    ctl = [e.replace('(Ok None)', '(Ok (Some 0))') for e in exprs if e.endswith('(Ok None)')][:3]
    badc, _ = coq_eval(IMPORTS, ctl)
    ctx.controls['run'] += len(ctl)
    ctx.controls['rejected'] += len(badc)
    if len(badc) != len(ctl):
        ctx.violation('control', 'comparator accepted a perturbed answer', broken='negative control', no_input=True)


def run(ctx: Ctx):
    explore(ctx)
    return {'rule': 'Malformed stream: each invalid class of the property (codon-level mutator on a non-coding region / without annotation, region '
                    'straddling an exon start / end / two exons / swallowing an exon - on region 1, 2 or 3, with nucleotide-level and codon-level '
                    'mutators, region or extension exceeding the targeton, two selected PAM edits at one position / in one codon incl. under an '
                    'upstream background shift, malformed label / extension vector / action vector / header / manifest header / adaptor, ambiguous '
                    'reference base, missing contig / VCF / INFO tag / sgRNA tag; cDNA: non-coding or partial CDS region, label, header, missing '
                    'sequence, ambiguous base, adaptor, annotation header) injected into an otherwise valid 1-3 targeton design at a random '
                    'targeton: exit status non-zero and no library file for the offending targeton. Valid stream: random valid SGE (background, '
                    'PAM incl. junction codons, custom, short exons) and cDNA designs must exit 0. S-api: get_targeton_region_exon_id on the '
                    'real SQLite tables and MutatorConfig.parse vs the model. Non-trivial = a refused invalid class or an accepted valid design.',
            'assumptions': ['refusals raised inside pysam / os (missing contig, file, tag) are exercised, not modelled']}


def replay(ctx: Ctx, path: str) -> int:
    with open(path) as fh:
        v = json.load(fh)
    case = v.get('case', {})
    if 'design' not in case:
        print('replay: nothing to run (obligation-only replay file)')
        return 0
    common.use_repo()
    d = case['design']
    r = run_case(d)
    if 'kind' in case:
        judge_invalid(ctx, d, case.get('offending'), case['kind'], r)
    else:
        judge_valid(ctx, d, r)
    if ctx.violations:
        print(f'VIOLATION property=C19 replay={path}')
        return 1
    print('replay: property holds on this input now')
    return 0
