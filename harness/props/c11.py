"""C11 - length filter partitions rows; unique file and names agree with the metadata."""
from __future__ import annotations

import json
import re

from .. import common, gen, rowcheck, sge
from ..runner import Ctx, coq_eval, coq_list, coq_str, coq_z, coq_dna

IMPORTS = ['Model.Base', 'Model.Pattern', 'Model.Unique']


def expected_name(d: dict, row: dict, cdna_seq_id: str | None) -> str:
    tr = f"{row['transcript_id']}.{row['gene_id']}" if row['transcript_id'] and row['gene_id'] else 'NO_TRANSCRIPT'
    pos, ref, new = int(row['mut_position']), row['ref'], row['new']
    pf = str(pos) if len(ref) <= 1 else f'{pos}_{pos + len(ref) - 1}'
    vf = pf if not new else f'{pf}_{ref}>{new}' if ref else f'{pf}_{new}'
    src = row['vcf_alias'] or row['mutator']
    if cdna_seq_id is not None:
        return f'{cdna_seq_id}_{tr}_{vf}_{src}'
    rc = '_rc' if (d['opts'].get('revcomp') and d['strand'] == '-') else ''
    return f"{tr}_{row['ref_chr']}:{vf}_{src}{rc}"


def check_results(ctx: Ctx, results, exprs=None, meta=None):
    for d, r in results:
        if r['exit'] != 0:
            continue
        mn = d['opts'].get('min_length') if d['opts'].get('min_length') is not None else 1
        mx = d['opts'].get('max_length') if d['opts'].get('max_length') is not None else 300
        short = long_ = 0
        for t in r['targetons']:
            name = t['name']
            f = r['files']
            inc = sge.parse_meta(f[name + '_meta.csv'])[1] if name + '_meta.csv' in f else None
            exc = sge.parse_meta(f[name + '_meta_excluded.csv'])[1] if name + '_meta_excluded.csv' in f else None
            case = {'surface': 'file', 'design': d, 'targeton': name}
            ctx.evaluations += 1
            for nm, rows in (('_meta.csv', inc), ('_meta_excluded.csv', exc)):
                if rows is not None and not rows:
                    ctx.violation('spec_violation', f'file_without_rows: {name}{nm} exists without data rows', dict(case, kind='file_without_rows'))
            inc, exc = inc or [], exc or []
            if inc and exc:
                ctx.nontriv((common.sha(d), name))
            for row in inc:
                if not (mn <= int(row['oligo_length']) <= mx):
                    ctx.violation('spec_violation', f"partition: oligo of length {row['oligo_length']} in _meta.csv with limits [{mn},{mx}]", dict(case, kind='partition'))
            for row in exc:
                L = int(row['oligo_length'])
                if mn <= L <= mx:
                    ctx.violation('spec_violation', f'partition: oligo of length {L} in _meta_excluded.csv with limits [{mn},{mx}]', dict(case, kind='partition'))
                short += L < mn
                long_ += L > mx
            # every MetaRow ends up in exactly one file, order preserved (pairing by the recorder)
            n_rows = len([x for x in inc + exc if x['mut_position'] != '-1'])
            if n_rows != len(t['rows']):
                ctx.violation('spec_violation', f"partition: {n_rows} rows written for {len(t['rows'])} mutations", dict(case, kind='partition_count'))
            # VCF and unique files describe included rows only
            for suf in ('_ref.vcf', '_pam.vcf'):
                if (name + suf in f) != (bool(inc) and t['sge']):
                    ctx.violation('spec_violation', f"vcf_presence: {name}{suf} {'exists' if name + suf in f else 'missing'} with {len(inc)} included rows", dict(case, kind='vcf_presence'))
            uniq = None
            if name + '_unique.csv' in f:
                lines = f[name + '_unique.csv'].split('\n')
                if lines[0] != 'oligo_name,mseq':
                    ctx.violation('spec_violation', 'unique_header: ' + lines[0], dict(case, kind='unique_header'))
                uniq = [ln.split(',') for ln in lines[1:] if ln]
            if (uniq is not None) != bool(inc):
                ctx.violation('spec_violation', f"unique_presence: _unique.csv {'exists' if uniq is not None else 'missing'} with {len(inc)} included rows", dict(case, kind='unique_presence'))
            if uniq is not None:
                by = {}
                for row in inc:
                    by.setdefault(row['mseq'], []).append(row['oligo_name'])
                exp = [[min(v), k] for k, v in by.items()]
                if len(by) < len(inc):
                    ctx.count('targetons_with_duplicate_mseq')
                if sorted(uniq) != sorted(exp):
                    ctx.violation('spec_violation', f'unique: _unique.csv is not one line per distinct mseq named by the smallest oligo_name ({len(uniq)} lines, {len(exp)} expected)',
                                  dict(case, kind='unique', got=[u for u in uniq if u not in exp][:3], expected=[e for e in exp if e not in uniq][:3]))
                if exprs is not None and inc:
                    pairs = coq_list(f'({coq_str(row["oligo_name"])}, {coq_dna(row["mseq"])})' for row in inc)
                    impl = coq_list(f'({coq_str(n)}, {coq_dna(s)})' for n, s in uniq)
                    exprs.append(f'unique_eqb (unique_table {pairs}) {impl}')
                    meta.append((d, name))
            # names
            groups = {}
            for row in inc + exc:
                if row['mut_position'] == '-1':
                    # the no-op row: <transcript>_<contig>_no_op with the _rc suffix of its row
                    tr = f"{row['transcript_id']}.{row['gene_id']}" if row['transcript_id'] and row['gene_id'] else 'NO_TRANSCRIPT'
                    en = f"{tr}_{row['ref_chr']}_no_op" + ('_rc' if (d['opts'].get('revcomp') and row['ref_strand'] == '-') else '')
                    ctx.count('noop_names')
                    if t['sge'] and row['oligo_name'] != en:
                        ctx.violation('spec_violation', f"name_format: no-op oligo_name {row['oligo_name']} but its fields give {en}", dict(case, kind='name_format'))
                    continue
                en = expected_name(d, row, None if t['sge'] else name.rsplit('_', 1)[0])
                if row['oligo_name'] != en:
                    ctx.violation('spec_violation', f"name_format: oligo_name {row['oligo_name']} but its fields give {en}", dict(case, kind='name_format'))
                groups.setdefault(row['oligo_name'], set()).add((row['vcf_alias'] or row['mutator'], row['mut_position'], row['ref'], row['new']))
            for n, g in groups.items():
                if len(g) > 1:
                    ctx.violation('spec_violation', f'name_collision: rows {sorted(g)[:2]} share the name {n}', dict(case, kind='name_collision'))
        # reported counts of discarded oligonucleotides
        warn = [m for l, m in r['log'] if l == 'WARNING' and 'were discarded' in m]
        got_short = sum(int(m.split()[0]) for m in warn if 'shorter than' in m)
        got_long = sum(int(m.split()[0]) for m in warn if 'longer than' in m)
        ctx.evaluations += 1
        if (got_short, got_long) != (short, long_):
            ctx.violation('spec_violation', f'counts: warnings report {got_short} short / {got_long} long discarded oligonucleotides, files hold {short} / {long_}',
                          {'surface': 'file', 'design': d, 'kind': 'counts_cdna' if d['mode'] == 'cdna' else 'counts'})


def designs(ctx: Ctx, n: int):
    out = []
    for i in range(n):
        # a third of the SGE designs carry background variants (indels upstream of / inside the targetons): names, like mut_position, are in
        # reference coordinates
        d = gen.gen_cdna(ctx.rng, {}) if i % 4 == 3 else gen.gen_sge(ctx.rng, {'p_bg': 0.35, 'bg_upstream': True, 'bg_kinds': ['snv', 'ins', 'del', 'del'],
                                                                               'allow_junction_pam': False, 'p_custom': 0.6,
                                                                               'non_cds_mut': ['snv', '1del', '2del0', '3del1', '5del3'], 'p_no_op': 0.7, 'p_pam': 0.8, 'n_pam': [1, 2, 3]})
        if d['mode'] == 'sge' and i % 6 == 1:
            # the same design once more on a second contig: the reported counts of discarded oligonucleotides cover the whole run
            d['extra_contigs'] = {}
            d['clone_contig'] = 'chr2'
            for f in d.get('vcfs') or []:
                f['records'] = [r for r in f['records'] if r.get('contig', d['contig']) == d['contig']]
        t = d['targetons'][0]
        L = t['ref_end'] - t['ref_start'] + 1 + len(d['opts'].get('adaptor5') or '') + len(d['opts'].get('adaptor3') or '')
        m = ctx.rng.random()
        if m < 0.25:
            d['opts']['max_length'] = L + ctx.rng.choice([-1, 0, 1])
        elif m < 0.5:
            d['opts']['min_length'] = L + ctx.rng.choice([-1, 0, 1])
        elif m < 0.7:
            d['opts']['min_length'] = L - ctx.rng.choice([0, 1, 2])
            d['opts']['max_length'] = L + ctx.rng.choice([0, 1])
        elif m < 0.8:
            d['opts']['max_length'] = max(1, L - 10)
        out.append(d)
    return out


def files(ctx: Ctx):
    ds = designs(ctx, ctx.n(120, 1500))
    results = rowcheck.run_designs(ds)
    rowcheck.model_rows(ctx, results, 'length filter', fields=['included', 'oligo_length'])
    exprs, meta = [], []
    check_results(ctx, results, exprs, meta)
    bad, err = coq_eval(IMPORTS, exprs, chunk=20)
    ctx.corr['cases'] += len(exprs)
    if err:
        ctx.violation('correspondence', 'model evaluation failed: ' + err[:300], broken='coqc cases (C11 unique)', no_input=True)
    for i in bad[:20]:
        ctx.corr['disagreements'] += 1
        ctx.violation('correspondence', f'_unique.csv of {meta[i][1]} differs from the model', {'surface': 'file', 'design': meta[i][0], 'targeton': meta[i][1]},
                      broken='correspondence S-file unique table')
    ctx.sample({'opts': ds[0]['opts'], 'targetons': ds[0]['targetons']})


def run(ctx: Ctx):
    files(ctx)
    return {'rule': 'S-file: random SGE and cDNA designs with min/max limits placed at len-1/len/len+1 of the typical oligo (deletions shorter, insertions longer), '
                    'adaptors of 0-6 bases, no-op rows, libraries with identical sequences from several sources: partition by length, file existence, VCF/unique only '
                    'for included rows, unique = one line per distinct mseq with the smallest name, name format and collisions, discarded counts in the warnings; '
                    'inclusion and the unique table compared with the Coq models. Non-trivial = targeton with both included and excluded rows.'}


def replay(ctx: Ctx, path: str) -> int:
    with open(path) as fh:
        v = json.load(fh)
    c = v.get('case', {})
    ctx.known = []
    if 'design' not in c:
        print('replay: obligation-only replay file')
        return 0
    res = rowcheck.run_designs([c['design']])
    rowcheck.model_rows(ctx, res, fields=[])
    check_results(ctx, res)
    if any(x['kind'] == 'spec_violation' for x in ctx.violations):
        print(f'VIOLATION property=C11 replay={path}')
        return 1
    print('replay: property holds on this input now')
    return 0
