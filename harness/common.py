"""Shared paths, environment and small helpers for the VaLiAnT verification harness."""
from __future__ import annotations

import hashlib
import json
import os
import sys
import time

VERIF = os.path.dirname(os.path.dirname(os.path.abspath(__file__)))
REPO = os.environ.get('VERIF_REPO', '/repo')
SRC = os.path.join(REPO, 'src')
COQ = os.path.join(VERIF, 'coq')
PY = '/venv/bin/python'
GUARD = 'VALIANT_VERIF'

COMP = {'A': 'T', 'C': 'G', 'G': 'C', 'T': 'A'}


def revcomp(s: str) -> str:
    return ''.join(COMP[c] for c in reversed(s))


def use_repo() -> None:
    """Make `import valiant` resolve to the working tree under test."""
    if SRC in sys.path:
        sys.path.remove(SRC)
    sys.path.insert(0, SRC)
    os.environ[GUARD] = '1'
    os.environ.setdefault('PYTHONHASHSEED', '0')


def seed() -> int:
    try:
        return int(os.environ.get('VERIF_SEED', '0'))
    except ValueError:
        return 0


def sha(obj) -> str:
    return hashlib.sha1(json.dumps(obj, sort_keys=True, default=str).encode()).hexdigest()[:12]


def scratch_root() -> str:
    d = os.environ.get('TMPDIR', '/tmp')
    return d


class Timer:
    def __init__(self):
        self.t0 = time.time()

    def s(self) -> float:
        return round(time.time() - self.t0, 2)
