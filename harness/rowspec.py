"""Independent row-level oracles (Python) for C01, C09, C10, applied to what the implementation wrote.
Each returns a list of (kind, message); kinds are stable names used by the known-finding predicates.
Coordinates: with background variants the reported coordinates are REF coordinates while templates are in ALT
(background) coordinates; `lift` maps a REF position to the template offset (identity offset without background)."""
from __future__ import annotations

import re

from . import common

MAVE_SUB = re.compile(r'^g\.(\d+)([ACGT])>([ACGT])$')
MAVE_DEL = re.compile(r'^g\.(\d+)(?:_(\d+))?del$')
MAVE_INS = re.compile(r'^g\.(\d+)_(\d+)ins([ACGT]+)$')
MAVE_DELINS = re.compile(r'^g\.(\d+)(?:_(\d+))?delins([ACGT]+)$')


def mave_parse(s: str):
    m = MAVE_SUB.match(s)
    if m:
        return ('sub', int(m.group(1)), m.group(2), m.group(3))
    m = MAVE_DEL.match(s)
    if m:
        p = int(m.group(1))
        return ('del', p, int(m.group(2)) if m.group(2) else p)
    m = MAVE_INS.match(s)
    if m:
        return ('ins', int(m.group(1)), int(m.group(2)), m.group(3))
    m = MAVE_DELINS.match(s)
    if m:
        p = int(m.group(1))
        return ('delins', p, int(m.group(2)) if m.group(2) else p, m.group(3))
    return None


def mave_apply(mv, seq: str, off=lambda p: p - 1):
    """Apply a parsed MAVE-HGVS variant to seq; `off` maps a 1-based offset of the string to an index of seq.
    -> (new sequence | None, reason)."""
    k = mv[0]
    if k == 'sub':
        i = off(mv[1])
        if i is None or not (0 <= i < len(seq)):
            return None, 'position outside the sequence'
        if seq[i] != mv[2]:
            return None, f'stated reference base {mv[2]} but the sequence has {seq[i]}'
        return seq[:i] + mv[3] + seq[i + 1:], ''
    if k in ('del', 'delins'):
        i, j = off(mv[1]), off(mv[2])
        if i is None or j is None or not (0 <= i <= j < len(seq)) or mv[2] < mv[1]:
            return None, 'range outside the sequence'
        if k == 'del' and mv[2] == mv[1] and False:
            pass
        return seq[:i] + (mv[3] if k == 'delins' else '') + seq[j + 1:], ''
    if k == 'ins':
        if mv[2] != mv[1] + 1:
            return None, 'insertion flanks are not consecutive'
        j = off(mv[2])        # inserted before the base at offset mv[2]; position 0 allowed as the left flank
        if j is None:
            i = off(mv[1])
            j = None if i is None else i + 1
        if j is None or not (0 <= j <= len(seq)):
            return None, 'insertion outside the sequence'
        return seq[:j] + mv[3] + seq[j:], ''
    return None, 'unknown'


def unrc(row: dict, rc: bool) -> str:
    o = row['mseq_no_adapt']
    return common.revcomp(o) if rc else o


def apply_mut(seq: str, start: int, pos: int, ref_len: int, new: str) -> str:
    o = pos - start
    return seq[:o] + new + seq[o + ref_len:]


# ---------------------------------------------------------------- C10

def check_mave(row: dict, rc: bool, lift=None):
    """row: a mutation row of a metadata file (not the no-op row)."""
    out = []
    rs = int(row['ref_start'])
    tpl = row['pam_seq'] or row['ref_seq']
    ref_seq = row['ref_seq']
    pos, ref, new = int(row['mut_position']), row['ref'], row['new']
    oligo = unrc(row, rc)
    off_alt = (lambda p: p - 1) if lift is None else (lambda p: lift(rs + p - 1))
    for col, seq, target, off in (('mave_nt', tpl, oligo, off_alt),
                                  ('mave_nt_ref', ref_seq, apply_mut(ref_seq, rs, pos, len(ref), new), lambda p: p - 1)):
        s = row[col]
        mv = mave_parse(s)
        if mv is None:
            out.append((f'{col}_syntax', f'{col}={s!r} is not a MAVE-HGVS substitution/del/ins/delins'))
            continue
        if mv[0] != 'ins' and mv[1] < 1:
            out.append((f'{col}_syntax', f'{col}={s!r}: position 0 is only documented for insertions'))
            continue
        got, why = mave_apply(mv, seq, off)
        if got is None:
            out.append((f'{col}_decode', f'{col}={s!r}: {why}'))
        elif got != target:
            kind = f'{col}_decode'
            if col == 'mave_nt' and mv[0] == 'ins' and not ref and len(mv[3]) > len(new):
                kind = 'mave_nt_widened_insertion'
            out.append((kind, f'{col}={s!r} decodes to {got}, expected {target}'))
    return out


# ---------------------------------------------------------------- C09

def check_vcf(row: dict, r1, r2, prev_ref: str | None, prev_alt: str | None, rc: bool, lift=None, bg=False):
    """Included SGE row with its two records (REF file, PAM file).  prev_*: the nucleotide preceding the targeton
    in the reference / in the protected sequence."""
    out = []
    rs = int(row['ref_start'])
    ref_seq, pam_seq = row['ref_seq'], row['pam_seq']
    pos, ref, new = int(row['mut_position']), row['ref'], row['new']
    oligo = unrc(row, rc)
    for tag, rec in (('ref', r1), ('pam', r2)):
        if rec is None:
            out.append((f'vcf_{tag}_missing', f'no record in the {tag} VCF for {row["oligo_name"]}'))
            continue
        if rec['info'].get('SGE_OLIGO') != row['oligo_name']:
            out.append((f'vcf_{tag}_link', f"SGE_OLIGO={rec['info'].get('SGE_OLIGO')} for row {row['oligo_name']}"))
        if rec['info'].get('SGE_SRC') != row['mutator']:
            out.append((f'vcf_{tag}_src', f"SGE_SRC={rec['info'].get('SGE_SRC')} for mutator {row['mutator']}"))
        if row['mutator'] == 'custom':
            if row['vcf_var_id'] and (rec['info'].get('SGE_VCF_ALIAS') != row['vcf_alias'] or rec['info'].get('SGE_VCF_VAR_ID') != row['vcf_var_id']):
                out.append((f'vcf_{tag}_ids', f"alias/id tags {rec['info']} for {row['vcf_alias']}/{row['vcf_var_id']}"))
        if not rec['ref'] or not rec['alt'] or rec['ref'] == '.' or rec['alt'] == '.':
            out.append((f'vcf_{tag}_empty_allele', f'empty allele in {rec}'))
            continue
        n = len(rec['ref'])
        o_ref = rec['pos'] - (rs - 1)           # offset in (preceding base + reference over the targeton)
        if bg and tag == 'pam':
            # the protected sequence is in background coordinates: POS (a reference coordinate) is read through the liftover
            if lift is None:
                continue
            qs, q = lift.r2a(rs), lift.r2a(rec['pos'])
            if qs is None or q is None or any(lift.r2a(rec['pos'] + i) != q + i for i in range(n + 1)):
                continue        # the record's span is not contiguous in the background: C06's relation decides those rows
            X = (prev_alt or '?') + pam_seq
            o = q - (qs - 1)
        else:
            X = (prev_ref or '?') + ref_seq if tag == 'ref' else (prev_alt or '?') + pam_seq
            o = o_ref
        if o < 0 or o + n > len(X) or (o == 0 and X[0] == '?'):
            out.append((f'vcf_{tag}_pos', f'record {rec["pos"]} {rec["ref"]}>{rec["alt"]} outside the targeton (+1 base)'))
            continue
        if X[o:o + n] != rec['ref']:
            anchor_only = X[o + 1:o + n] == rec['ref'][1:]
            out.append((f'vcf_{tag}_ref_mismatch' + ('_anchor' if anchor_only else ''),
                        f'{tag} VCF {rec["pos"]} {rec["ref"]}>{rec["alt"]}: REF is {X[o:o + n]} there'))
        target = (prev_ref or '?') + apply_mut(ref_seq, rs, pos, len(ref), new) if tag == 'ref' else (prev_alt or '?') + oligo
        got = X[:o] + rec['alt'] + X[o + n:]
        if X[o:o + n] == rec['ref'] and got != target:
            out.append((f'vcf_{tag}_alt', f'{tag} VCF {rec["pos"]} {rec["ref"]}>{rec["alt"]} yields {got[1:]}, expected {target[1:]}'))
        elif X[o:o + n] != rec['ref']:
            # judge ALT on its own: replacing the span by ALT must reproduce the target over that span
            if got != target:
                anchor_only = got[:o] + got[o + 1:] == target[:o] + target[o + 1:]
                out.append((f'vcf_{tag}_alt' + ('_anchor' if anchor_only else ''), f'{tag} VCF {rec["pos"]} {rec["ref"]}>{rec["alt"]} does not reproduce the sequence'))
        if tag == 'pam':
            R = (prev_ref or '?') + ref_seq
            unprot = R[o_ref:o_ref + n]
            has = 'SGE_REF' in rec['info']
            if unprot != rec['ref'] and (not has or rec['info']['SGE_REF'] != unprot):
                out.append(('vcf_sge_ref', f"PAM VCF {rec['pos']} {rec['ref']}>{rec['alt']}: SGE_REF={rec['info'].get('SGE_REF')} but the unprotected reference is {unprot}"))
            if unprot == rec['ref'] and has:
                out.append(('vcf_sge_ref', f"PAM VCF {rec['pos']}: SGE_REF={rec['info']['SGE_REF']} given although REF equals the unprotected reference"))
    return out


# ---------------------------------------------------------------- C01

def check_row_c01(row: dict, rc: bool, a5: str, a3: str, lift=None, noop=False):
    out = []
    rs = int(row['ref_start'])
    tpl = row['pam_seq'] or row['ref_seq']
    if row['mseq'] != a5 + row['mseq_no_adapt'] + a3:
        out.append(('c01_adaptors', 'mseq is not adaptor5 + mseq_no_adapt + adaptor3'))
    if int(row['oligo_length']) != len(row['mseq']):
        out.append(('c01_length', f"oligo_length={row['oligo_length']} but mseq has {len(row['mseq'])} bases"))
    oligo = unrc(row, rc)
    if noop:
        if oligo != tpl:
            out.append(('c01_noop', 'the no-op oligonucleotide is not the unmutated template'))
        return out
    pos, ref, new = int(row['mut_position']), row['ref'], row['new']
    o = (pos - rs) if lift is None else lift(pos)
    if o is None or o < 0 or o + len(ref) > len(tpl) or (not ref and o > len(tpl)):
        out.append(('c01_position', f'mut_position {pos} (+{len(ref)}) outside the template'))
        return out
    if tpl[o:o + len(ref)] != ref:
        out.append(('c01_ref', f'ref={ref} but the template has {tpl[o:o + len(ref)]} at {pos}'))
    exp = tpl[:o] + new + tpl[o + len(ref):]
    if oligo != exp:
        out.append(('c01_oligo', f'oligo is not the template with {ref or "-"}>{new or "-"} at {pos}'))
    return out
