"""A small fail-closed translator from a restricted subset of Python (pure integer / range arithmetic of VaLiAnT's kernels)
to Gallina.  It is run on every check (harness/gen_facts.py, extractor `Kernels`) and writes coq/Generated/Kernels.v; the
theorems of coq/Proofs/KernelEquiv.v state that each generated definition equals the hand-written model definition for all
inputs, so an edit of one of these source functions changes the generated definition and the equivalence no longer checks.

Subset: functions / methods / properties whose body is made of `assert`, `if` (with return / raise), assignments to fresh
locals, `match` on an integer with literal cases, and a final `return`; expressions over ints, booleans, tuples,
`UIntRange(...)` constructions, calls of other translated functions, and attributes of typed arguments.  Anything else
raises TransError (the generated file then says `fact_extracted := false`).

Every translated function returns `result T`: Python exceptions are explicit (`assert` -> AssertionError, `raise
ValueError` -> ValueError, the UIntRange constructor check -> ValueError)."""
from __future__ import annotations

import ast


class TransError(Exception):
    pass


COQ_KEYWORDS = {'seq', 'end', 'in', 'as', 'at', 'fun', 'match', 'with', 'return', 'then', 'else', 'if', 'let', 'Type', 'Set', 'Prop', 'forall', 'exists', 'fix', 'struct', 'where'}


def cname(n: str) -> str:
    return n + '_' if n in COQ_KEYWORDS else n


# attribute access on typed values -> Coq accessor
ATTR = {
    ('exon', 'start'): ('x_start', 'int'), ('exon', 'end'): ('x_end', 'int'), ('exon', 'frame'): ('x_frame', 'int'), ('exon', 'index'): ('x_index', 'int'),
    ('range', 'start'): ('rs', 'int'), ('range', 'end'): ('re', 'int'),
    ('strand', 'is_plus'): ('is_plus', 'bool'),
    ('pt', 'offset'): ('pt_offset', 'int'), ('pt', 'span'): ('pt_span', 'int'),
    ('cds', 'start'): ('c_start', 'int'), ('cds', 'end'): ('c_end', 'int'), ('cds', 'cds_prefix'): ('c_prefix', 'dna'), ('cds', 'cds_suffix'): ('c_suffix', 'dna'),
    ('cds', 'cds_prefix_positions'): ('c_prefix_pos', 'list:int'), ('cds', 'cds_suffix_positions'): ('c_suffix_pos', 'list:int'),
    ('tcfg', 'ref'): ('t_ref', 'range'), ('tcfg', 'region_2'): ('t_r2', 'range'),
    ('tcfg', 'region_1_length'): ('t_e1', 'int'), ('tcfg', 'region_3_length'): ('t_e3', 'int'),
    ('variant', 'pos'): ('v_pos', 'int'), ('variant', 'ref'): ('v_ref_s', 'str'), ('variant', 'alt'): ('v_alt_s', 'str'),
    ('vstat', 'pos'): ('vpos', 'int'), ('vstat', 'ref_len'): ('vrl', 'int'), ('vstat', 'alt_len'): ('val', 'int'),
    ('po', 'pos'): ('fst', 'int'), ('po', 'offset'): ('snd', 'int'),
    ('mrow', 'ref_pos'): ('mr_ref_pos', 'int'), ('mrow', 'alt_pos'): ('mr_alt_pos', 'int'), ('mrow', 'end'): ('mr_end', 'int'),
    ('mrow', 'start_exon_index'): ('mr_start_exon', 'option:int'), ('mrow', 'end_exon_index'): ('mr_end_exon', 'option:int'),
    ('mrow', 'start_ppe_start'): ('mr_start_ppe', 'option:int'), ('mrow', 'end_ppe_start'): ('mr_end_ppe', 'option:int'),
    ('seq', 'start'): ('s_start', 'int'), ('seq', 's'): ('s_bases', 'dna'),
    ('counts', 'too_short'): ('too_short', 'int'), ('counts', 'in_range'): ('in_range_n', 'int'), ('counts', 'too_long'): ('too_long', 'int'),
    ('opt', 'oligo_min_length'): ('o_min', 'int'), ('opt', 'oligo_max_length'): ('o_max', 'int'),
    ('kgpo', 'ref_range'): ('kg_range', 'range'), ('kgpo', 'alt_length'): ('kg_alt_length', 'int'),
    ('kgpo', '_pos_offsets'): ('kg_pos_offsets', 'list:po'), ('kgpo', '_alt_offsets'): ('kg_alt_offsets', 'list:po'),
    ('kgpo', '_ref_del_mask'): ('kg_del', 'list:int'), ('kgpo', '_shift_mask'): ('kg_shift', 'list:int'), ('kgpo', '_alt_ins_mask'): ('kg_ins', 'list:int'),
}
# parameters annotated `str` that the callers fill with DNA text (an abstraction: the model's sequences are lists of nucleotides, a non-ACGT
# character would make the DnaStr constructor raise ValueError): (function key, parameter) -> 'dna'
DNA_PARAMS = {('dna.replace_substr', 'alt'), ('dna.insert_substr', 'alt'), ('seq.replace_substr', 'alt'), ('seq.insert_substr', 'alt'), ('seq.alter', 'alt')}
# mutable records: methods that assign self.<field> return the new record (next to their value); fields re-read from the source
MUT_RECORDS = {'OligoGenerationInfo': ('counts', 'mkCounts', [('too_short', 'too_short'), ('in_range', 'in_range_n'), ('too_long', 'too_long')])}
# records whose field list (names, annotations, order) is re-read from the source before their attributes are translated
# records of which only some fields are read: those fields must be declared in the source with these annotations
PARTIAL_FIELDS = {'MetaRow': ('mrow', {'ref_pos': 'int', 'alt_pos': 'int', 'end': 'int', 'start_exon_index': 'int | None', 'end_exon_index': 'int | None',
                                        'start_ppe_start': 'int | None', 'end_ppe_start': 'int | None'})}
RECORD_FIELDS = {'GenomicPositionOffsets': ('kgpo', [('ref_range', 'UIntRange'), ('alt_length', 'int'), ('_pos_offsets', 'list[PosOffset]'), ('_ref_del_mask', 'array'),
                                                    ('_shift_mask', 'array'), ('_alt_offsets', 'list[PosOffset]'), ('_alt_ins_mask', 'array')])}
# dataclasses built positionally -> (type tag, field names in order, field types); the field order is re-read from the source (module_facts)
CTOR = {'PosOffset': ('po', ['pos', 'offset'], ['int', 'int'])}
# python annotation -> model type tag
ANNOT = {'int': 'int', 'bool': 'bool', 'Strand': 'strand', 'Exon': 'exon', 'UIntRange': 'range', 'IntPatternBuilder': 'pt', 'CdsSeq': 'cds',
         'TargetonConfig': 'tcfg', 'str': 'str', 'str | None': 'ostr', 'VariantType': 'vtype', 'Variant': 'variant', 'VarStats': 'vstat',
         'SearchType': 'search', 'SearchType | None': 'option:search', 'Options': 'opt', 'OligoGenerationInfo': 'counts', 'MetaRow': 'mrow', 'int | None': 'option:int', 'DnaStr': 'dna', 'Seq': 'seq', 'Callable[[int], bool]': 'fn:int->bool', 'list[VarStats]': 'list:vstat', 'Iterable[VarStats]': 'list:vstat', 'list[PosOffset]': 'list:po', 'array': 'list:int'}
COQ_TYPE = {'int': 'Z', 'bool': 'bool', 'strand': 'strand', 'exon': 'exon', 'range': 'range', 'pt': 'pt', 'cds': 'cds_seq', 'tcfg': 'tcfg', 'unit': 'unit',
            'str': 'string', 'ostr': '(option string)', 'vtype': 'vtype', 'strenum': 'string', 'variant': 'variant', 'vstat': 'vstat', 'po': '(Z * Z)', 'kgpo': 'kgpo', 'search': 'search', 'counts': 'counts', 'opt': 'opts', 'mrow': 'meta_row', 'dna': 'dna', 'seq': 'seq'}


def coq_type(t: str) -> str:
    if t.startswith('list:'):
        return f'(list {coq_type(t[5:])})'
    if t.startswith('option:'):
        return f'(option {coq_type(t[7:])})'
    if t.startswith('tuple:'):
        return '(' + ' * '.join(coq_type(x) for x in t[6:].split(',')) + ')'
    if t == 'fn:int->bool':
        return '(Z -> result bool)'
    if t not in COQ_TYPE:
        raise TransError(f'no Coq type for {t}')
    return COQ_TYPE[t]


# members of the IntEnum VariantType -> constructors of the model's vtype
VTYPE_MEMBERS = {'INSERTION': 'VIns', 'DELETION': 'VDel', 'SUBSTITUTION': 'VSub', 'UNKNOWN': 'VUnknown'}


def coq_string(x: str) -> str:
    if any(ord(c) < 32 or ord(c) > 126 for c in x):
        raise TransError('non-printable character in a string literal')
    return '"' + x.replace('"', '""') + '"'
ERR = {'ValueError': 'ValueError', 'AssertionError': 'AssertionError', 'NotImplementedError': 'NotImplementedErr', 'RuntimeError': 'RuntimeError'}
# members of the IntEnum SearchType -> constructors of the model's `search` (the values are re-read from the source)
SEARCH_MEMBERS = {'BEFORE': ('Before', 0), 'AFTER': ('After', 1)}
# functions of array_utils.py that are not translated (a while loop, try / except): their semantics are the definitions of Model/PyLoop.v
ARRAY_BUILTINS = {'get_prev_index': 'u8_prev_index', 'get_next_index': 'u8_next_index'}


class Fn:
    def __init__(self, coq_name, params, ret, defaults=None):
        self.coq_name, self.params, self.ret = coq_name, params, ret      # params: [(name, type tag)], ret: type tag
        self.defaults = defaults or {}                                    # parameter name -> default value (an ast constant)


class Translator:
    def __init__(self):
        self.fns: dict[str, Fn] = {}       # python call name (function, or Class.method / Class.property) -> Fn
        self.out: list[str] = []
        self.fresh = 0
        self.wrap_some = False
        self.cur_self = None
        self.procedure = False
        self.mutating = False                             # the method being translated assigns fields of self: it returns the new record
        self.mut_ok: set[str] = set()                     # mutable record types whose field list was confirmed in the source
        self.consts: dict[str, tuple[str, str]] = {}     # module-level constants: name -> (coq term, type tag)
        self.str_enums: dict[str, dict[str, str]] = {}    # string Enum classes: class -> {member: value}
        self.nodes: dict[str, ast.FunctionDef] = {}       # translated functions by call key (for the format-only check)
        self.noreturn: set[str] = set()
        self.loops: list[dict] = []                       # enclosing `for` loops of the statement being translated
        self.narrow: dict[str, tuple[str, str]] = {}      # expressions known not to be None at this point (ast.dump -> value, type)
        self.records: set[str] = set()                    # record types whose field list was confirmed in the source
        self.search_ok = False                            # SearchType members confirmed in the source
        self.exc_classes: dict[str, str] = {}             # exception classes of the translated modules -> the built-in they derive from
        self.post_init: set[str] = set()                  # record types whose class defines __post_init__
        self.fn_tables: dict[str, tuple] = {}             # module-level dictionaries of functions: name -> (coq name, key type, parameter types, return type)
        self.ctors: set[str] = set()                      # dataclass constructors whose field order was confirmed in the source

    # ------------------------------------------------------------ expressions
    def tmp(self):
        self.fresh += 1
        return f'_t{self.fresh}'

    def expr(self, e, env, binds):
        """-> (coq term, type tag); monadic sub-computations are appended to binds as (var, term)."""
        if self.narrow and not isinstance(e, ast.Constant):
            key = ast.dump(e)
            if key in self.narrow:
                return self.narrow[key]
        if isinstance(e, ast.Constant):
            if isinstance(e.value, bool):
                return ('true' if e.value else 'false'), 'bool'
            if isinstance(e.value, int):
                return (f'({e.value})' if e.value < 0 else str(e.value)), 'int'
            if isinstance(e.value, str):
                return f'({coq_string(e.value)}%string)', 'str'
            if e.value is None:
                return 'None', 'none'
            raise TransError(f'constant {e.value!r}')
        if isinstance(e, ast.Name):
            if e.id in env:
                return env[e.id]
            if e.id in self.consts:
                return self.consts[e.id]
            raise TransError(f'unknown name {e.id}')
        if isinstance(e, ast.JoinedStr) and e.values and all(isinstance(p_, ast.FormattedValue) and p_.conversion == -1 and p_.format_spec is None for p_ in e.values):
            probe = []
            kinds = [self.expr(p_.value, env, probe)[1] for p_ in e.values]
            if all(k_ == 'dna' for k_ in kinds):
                parts = [self.expr(p_.value, env, binds)[0] for p_ in e.values]
                return '(' + ' ++ '.join(parts) + ')', 'dna'      # the text of DNA strings put side by side
        if isinstance(e, ast.JoinedStr):
            # f-string: literal pieces and {int} / {str} / {optional str} / {call} pieces, no format specs
            parts = []
            for piece in e.values:
                if isinstance(piece, ast.Constant) and isinstance(piece.value, str):
                    parts.append(coq_string(piece.value))
                elif isinstance(piece, ast.FormattedValue) and piece.conversion == -1 and piece.format_spec is None:
                    v, t = self.expr(piece.value, env, binds)
                    parts.append(self.as_text(v, t))
                else:
                    raise TransError('f-string piece')
            return '(' + ' ++ '.join(parts or ['""']) + ')%string', 'str'
        if isinstance(e, ast.List):
            if not e.elts:
                return '[]', 'list:?'
            parts = [self.expr(x, env, binds) for x in e.elts]
            if len({t for _, t in parts}) != 1:
                raise TransError('list of mixed types')
            return '[' + '; '.join(p for p, _ in parts) + ']', 'list:' + parts[0][1]
        if isinstance(e, ast.Subscript) and isinstance(e.value, ast.Name) and e.value.id in self.fn_tables and e.value.id not in env:
            coqn, kt, _, _ = self.fn_tables[e.value.id]
            k, tk = self.expr(e.slice, env, binds)
            if tk != kt:
                raise TransError(f'key of {e.value.id}: {tk}')
            return f'({coqn} {k})', 'fnval:' + e.value.id      # every member of the key type has an entry (checked in module_facts)
        if isinstance(e, ast.Subscript) and isinstance(e.slice, ast.Slice) and e.slice.step is None and (e.slice.lower is None) != (e.slice.upper is None):
            v, t = self.expr(e.value, env, binds)
            if t != 'dna':
                raise TransError('slices are only translated on DNA strings')
            b, tb = self.expr(e.slice.upper if e.slice.lower is None else e.slice.lower, env, binds)
            if tb != 'int':
                raise TransError('slice bound')
            return (f'(py_slice_upto {v} {b})' if e.slice.lower is None else f'(py_slice_from {v} {b})'), 'dna'
        if isinstance(e, ast.Subscript):
            v, t = self.expr(e.value, env, binds)
            i, ti = self.expr(e.slice, env, binds)
            if not t.startswith('list:') or t == 'list:?' or ti != 'int':
                raise TransError('subscript is only translated for an integer index into a list')
            x = self.tmp()
            binds.append((x, f'py_index {v} {i}'))      # negative indices count from the end, IndexError outside
            return x, t[5:]
        if isinstance(e, ast.Tuple):
            parts = [self.expr(x, env, binds) for x in e.elts]
            return '(' + ', '.join(p for p, _ in parts) + ')', 'tuple:' + ','.join(t for _, t in parts)
        if isinstance(e, ast.UnaryOp):
            v, t = self.expr(e.operand, env, binds)
            if isinstance(e.op, ast.USub) and t == 'int':
                return f'(- {v})', 'int'
            if isinstance(e.op, ast.Not) and t == 'bool':
                return f'(negb {v})', 'bool'
            if isinstance(e.op, ast.Not) and t == 'str':
                return f'(sempty {v})', 'bool'
            if isinstance(e.op, ast.Not) and t == 'ostr':
                return f'(onull {v})', 'bool'      # None or the empty string
            if isinstance(e.op, ast.Not) and t.startswith('list:'):
                return f'(lempty {v})', 'bool'
            raise TransError('unary operator')
        if isinstance(e, ast.BinOp):
            a, ta = self.expr(e.left, env, binds)
            b, tb = self.expr(e.right, env, binds)
            ops = {ast.Add: '+', ast.Sub: '-', ast.Mult: '*', ast.FloorDiv: '/', ast.Mod: 'mod'}
            if isinstance(e.op, ast.Add) and ta == 'str' and tb == 'str':
                return f'({a} ++ {b})%string', 'str'
            if isinstance(e.op, ast.Add) and ta == 'dna' and tb == 'dna':
                return f'({a} ++ {b})', 'dna'
            if isinstance(e.op, ast.Add) and ta.startswith('list:') and tb.startswith('list:'):
                t = self.join(ta, tb)
                return f'({a} ++ {b})', t
            if type(e.op) not in ops or ta != 'int' or tb != 'int':
                raise TransError('binary operator')
            return f'({a} {ops[type(e.op)]} {b})', 'int'
        if isinstance(e, ast.BoolOp) and isinstance(e.op, ast.Or):
            # `... or X is None or <uses of X>`: the operands after the test see the value of X (a pure attribute / property chain)
            for k, x in enumerate(e.values[:-1]):
                if isinstance(x, ast.Compare) and len(x.ops) == 1 and isinstance(x.ops[0], ast.Is) and isinstance(x.comparators[0], ast.Constant) \
                        and x.comparators[0].value is None and self.pure_chain(x.left):
                    pre = []
                    v, t = self.expr(x.left, env, pre)
                    if not t.startswith('option:'):
                        continue
                    head = e.values[:k]
                    inner = []
                    if head:
                        hv, ht = self.expr(ast.BoolOp(op=ast.Or(), values=head) if len(head) > 1 else head[0], env, inner)
                        if ht != 'bool':
                            raise TransError('boolean operator on non-booleans')
                    key = ast.dump(x.left)
                    nv = self.tmp()
                    saved = dict(self.narrow)
                    self.narrow[key] = (nv, t[7:])
                    try:
                        tail_binds = []
                        rest = e.values[k + 1:]
                        tv, tt = self.expr(ast.BoolOp(op=ast.Or(), values=rest) if len(rest) > 1 else rest[0], env, tail_binds)
                    finally:
                        self.narrow = saved
                    if tt != 'bool':
                        raise TransError('boolean operator on non-booleans')
                    tail = f'(match {v} with None => Ok true | Some {nv} => {self.wrap(tail_binds, "Ok " + tv)} end)'
                    body = self.wrap(pre, tail)
                    xres = self.tmp()
                    if head:
                        binds.extend(inner)
                        binds.append((xres, f'(if {hv} then Ok true else {body})'))
                    else:
                        binds.append((xres, body))
                    return xres, 'bool'
        if isinstance(e, ast.BoolOp):
            # `and` / `or` evaluate lazily: an operand after the first that may raise is only run when it is reached
            lazy = []
            for i, x in enumerate(e.values):
                inner = [] if i > 0 else binds
                lazy.append((self.expr(x, env, inner), [] if i == 0 else inner))
            if all(t in ('bool', 'str', 'ostr') for (_, t), _ in lazy) and any(t != 'bool' for (_, t), _ in lazy) \
                    and not (isinstance(e.op, ast.Or) and len(lazy) == 2 and lazy[1][0][1] == 'none'):
                # `a and b` / `a or b` over strings used for their truth value only (callers use them as conditions)
                lazy = [((self.truth(v, t), 'bool'), inner) for (v, t), inner in lazy]
            if any(inner for _, inner in lazy):
                if any(t != 'bool' for (_, t), _ in lazy):
                    raise TransError('boolean operator on non-booleans')
                is_or = isinstance(e.op, ast.Or)
                (cur, _), _ = lazy[0]
                pure = True
                for (v, _), inner in lazy[1:]:
                    if pure and not inner:
                        cur = f'({cur} || {v})' if is_or else f'({cur} && {v})'
                        continue
                    rest = self.wrap(inner, f'Ok {v}')
                    x = self.tmp()
                    binds.append((x, f'(if {cur} then Ok true else {rest})' if is_or else f'(if {cur} then {rest} else Ok false)'))
                    cur = x
                return cur, 'bool'
            vals = [v for v, _ in lazy]
            if isinstance(e.op, ast.Or) and len(vals) == 2 and vals[0][1] == 'option:range' and vals[1][1] == 'range':
                return f'(match {vals[0][0]} with Some _r => _r | None => {vals[1][0]} end)', 'range'     # `x or default` on an optional range
            if isinstance(e.op, ast.Or) and len(vals) == 2 and vals[1][1] == 'none' and vals[0][1] in ('str', 'ostr'):
                return (f'(nonempty {vals[0][0]})' if vals[0][1] == 'str' else f'(ononempty {vals[0][0]})'), 'ostr'     # `s or None`
            if any(t != 'bool' for _, t in vals):
                raise TransError('boolean operator on non-booleans')
            op = ' && ' if isinstance(e.op, ast.And) else ' || '
            return '(' + op.join(v for v, _ in vals) + ')', 'bool'
        if isinstance(e, ast.Compare):
            left = e.left
            terms = []
            for op, right in zip(e.ops, e.comparators):
                if isinstance(op, (ast.In, ast.NotIn)):
                    a, ta = self.expr(left, env, binds)
                    b, tb = self.expr(right, env, binds)
                    if tb == 'exon':
                        b, tb = f'(x_range {b})', 'range'
                    if tb != 'range' or ta not in ('int', 'range'):
                        raise TransError('`in` is only translated for a position or a range in a range / exon')
                    t = f'(in_range {a} {b})' if ta == 'int' else f'(range_in {a} {b})'
                    terms.append(t if isinstance(op, ast.In) else f'(negb {t})')
                elif isinstance(op, (ast.Is, ast.IsNot)):
                    a, ta = self.expr(left, env, binds)
                    b, tb = self.expr(right, env, binds)
                    if tb == 'none' and ta.startswith('option:'):
                        terms.append(f'(match {a} with None => true | Some _ => false end)' if isinstance(op, ast.Is) else f'(match {a} with None => false | Some _ => true end)')
                        left = right
                        continue
                    if tb != 'none' or ta != 'ostr':
                        raise TransError('`is` is only translated for an optional string against None')
                    terms.append(f'(ois_none {a})' if isinstance(op, ast.Is) else f'(negb (ois_none {a}))')
                else:
                    a, ta = self.expr(left, env, binds)
                    b, tb = self.expr(right, env, binds)
                    if ta == 'vtype' and tb == 'vtype' and isinstance(op, (ast.Eq, ast.NotEq)):
                        t = f'(vtype_eqb {a} {b})'
                        terms.append(t if isinstance(op, ast.Eq) else f'(negb {t})')
                        left = right
                        continue
                    if {ta, tb} == {'int', 'vstat'} and isinstance(op, (ast.Eq, ast.NotEq)):
                        # an int and a dataclass instance never compare equal (the dataclass __eq__ answers NotImplemented for another class)
                        terms.append('false' if isinstance(op, ast.Eq) else 'true')
                        left = right
                        continue
                    if ta != 'int' or tb != 'int':
                        raise TransError('comparison of non-integers')
                    sym = {ast.Lt: ('<?', False), ast.LtE: ('<=?', False), ast.Gt: ('<?', True), ast.GtE: ('<=?', True),
                           ast.Eq: ('=?', False), ast.NotEq: ('=?', None)}.get(type(op))
                    if sym is None:
                        raise TransError('comparison operator')
                    s, flip = sym
                    t = f'({b} {s} {a})' if flip else f'({a} {s} {b})'
                    terms.append(f'(negb {t})' if flip is None else t)
                left = right
            return ('(' + ' && '.join(terms) + ')' if len(terms) > 1 else terms[0]), 'bool'
        if isinstance(e, ast.IfExp):
            c, tc = self.expr(e.test, env, binds)
            c, tc = self.truth(c, tc), 'bool'
            inner_a, inner_b = [], []
            a, ta = self.expr(e.body, env, inner_a)
            b, tb = self.expr(e.orelse, env, inner_b)
            if ta != tb and {ta, tb} <= {'str', 'none', 'ostr'}:
                # str / None branches: an optional string
                a = f'(Some {a})' if ta == 'str' else a
                b = f'(Some {b})' if tb == 'str' else b
                ta = tb = 'ostr'
            if ta != tb and 'none' in (ta, tb) and (ta if tb == 'none' else tb) in ('search', 'int', 'range'):
                inner_t = ta if tb == 'none' else tb
                a = f'(Some {a})' if ta == inner_t else a
                b = f'(Some {b})' if tb == inner_t else b
                ta = tb = 'option:' + inner_t
            if tc != 'bool' or ta != tb:
                raise TransError('conditional expression types')
            if inner_a or inner_b:
                # only the taken branch is evaluated in Python: a call that may raise can be hoisted out of the conditional only when
                # both branches make exactly the same calls; otherwise the conditional itself becomes a monadic step
                if [m for _, m in inner_a] == [m for _, m in inner_b]:
                    for (xa, _), (xb, _) in zip(inner_a, inner_b):
                        b = b.replace(xb, xa)
                    binds.extend(inner_a)
                else:
                    x = self.tmp()
                    binds.append((x, f'(if {c} then {self.wrap(inner_a, "Ok " + a)} else {self.wrap(inner_b, "Ok " + b)})'))
                    return x, ta
            return f'(if {c} then {a} else {b})', ta
        if isinstance(e, ast.Attribute):
            if isinstance(e.value, ast.Name) and e.value.id in self.str_enums and e.attr in self.str_enums[e.value.id]:
                return f'({coq_string(self.str_enums[e.value.id][e.attr])}%string)', 'strenum'     # a member of a string Enum: its value
            if isinstance(e.value, ast.Name) and e.value.id == 'VariantType' and e.attr in VTYPE_MEMBERS:
                return VTYPE_MEMBERS[e.attr], 'vtype'
            if isinstance(e.value, ast.Name) and e.value.id == 'SearchType' and e.attr in SEARCH_MEMBERS and self.search_ok:
                return SEARCH_MEMBERS[e.attr][0], 'search'
            v, t = self.expr(e.value, env, binds)
            if t == 'strenum' and e.attr == 'value':
                return v, 'str'
            if t == 'vtype' and e.attr == 'value':
                return f'(vtype_value {v})', 'int'
            if (any(t == tag for tag, _ in RECORD_FIELDS.values()) or any(t == tag for tag, _ in PARTIAL_FIELDS.values())) and t not in self.records:
                raise TransError(f'fields of {t} not confirmed in the source')
            key = (t, e.attr)
            if key in ATTR:
                acc, ty = ATTR[key]
                return f'({acc} {v})', ty
            prop = self.fns.get(f'{t}.{e.attr}')
            if prop is not None and [pn for pn, _ in prop.params if pn != 'self']:
                # not a property: the attribute is a bound method, handed over as a callback
                if [tp for pn, tp in prop.params if pn != 'self'] != ['int'] or prop.ret != 'bool':
                    raise TransError(f'bound method {t}.{e.attr} used as a value')
                return f'({prop.coq_name} {v})', 'fn:int->bool'
            if prop is not None:
                x = self.tmp()
                binds.append((x, f'{prop.coq_name} {v}'))
                return x, prop.ret
            raise TransError(f'attribute {t}.{e.attr}')
        if isinstance(e, ast.Call):
            f = e.func
            if e.keywords and not (isinstance(f, ast.Attribute) or (isinstance(f, ast.Name) and (f.id in self.fns or f.id in ('sorted', 'replace')))):
                raise TransError('keyword arguments')
            if any(k.arg is None for k in e.keywords):
                raise TransError('**kwargs')
            if isinstance(f, ast.Name) and f.id == 'list' and len(e.args) == 1 and isinstance(e.args[0], ast.Call) \
                    and isinstance(e.args[0].func, ast.Name) and e.args[0].func.id == 'range' and len(e.args[0].args) in (2, 3):
                a3 = [self.expr(x, env, binds) for x in e.args[0].args]
                if any(t != 'int' for _, t in a3):
                    raise TransError('range over non-integers')
                if len(a3) == 2:
                    return f'(py_range {a3[0][0]} {a3[1][0]} 1)', 'list:int'
                step = e.args[0].args[2]
                if isinstance(step, ast.Constant) and isinstance(step.value, int) and step.value > 0:
                    return f'(py_range {a3[0][0]} {a3[1][0]} {a3[2][0]})', 'list:int'
                if isinstance(step, ast.UnaryOp) and isinstance(step.op, ast.USub) and isinstance(step.operand, ast.Constant) and step.operand.value == 1:
                    return f'(py_range_down {a3[0][0]} {a3[1][0]})', 'list:int'      # range(a, b, -1): a, a - 1, ..., b + 1
                if isinstance(step, ast.Constant) or isinstance(step, ast.UnaryOp):
                    raise TransError('range with a literal step that is not positive or -1')
                return f'(py_range {a3[0][0]} {a3[1][0]} {a3[2][0]})', 'list:int'      # a variable step is read as positive (IntPatternBuilder's span)
            if isinstance(f, ast.Name) and f.id == 'list' and len(e.args) == 1 and not e.keywords and isinstance(e.args[0], ast.Call) \
                    and isinstance(e.args[0].func, ast.Name) and e.args[0].func.id == 'chain' and not e.args[0].keywords and e.args[0].args:
                parts = [self.as_list(x, env, binds) for x in e.args[0].args]
                t = None
                for _, tp in parts:
                    t = self.join(t, tp)
                return '(' + ' ++ '.join(p_ for p_, _ in parts) + ')', t
            if isinstance(f, ast.Name) and f.id == 'sorted' and len(e.args) == 1 and len(e.keywords) == 1 and e.keywords[0].arg == 'key' \
                    and ast.unparse(e.keywords[0].value) == 'lambda x: x.pos':
                v, t = self.expr(e.args[0], env, binds)
                if t != 'list:vstat':
                    raise TransError('sorted by position of something other than variant statistics')
                return f'(sort_by_pos {v})', t       # a stable sort by the key (Model/Gpo.v)
            if isinstance(f, ast.Name) and f.id == 'any' and len(e.args) == 1 and isinstance(e.args[0], ast.GeneratorExp) and not e.keywords:
                g = e.args[0]
                if len(g.generators) != 1 or g.generators[0].ifs or g.generators[0].is_async or not isinstance(g.generators[0].target, ast.Name):
                    raise TransError('any over a generator with filters or several loops')
                it = g.generators[0].iter
                if isinstance(it, ast.Call) and isinstance(it.func, ast.Name) and it.func.id == 'range' and not it.keywords and len(it.args) in (1, 2):
                    a = [self.expr(x, env, binds) for x in it.args]
                    if any(t != 'int' for _, t in a):
                        raise TransError('range over non-integers')
                    lst, elem = (f'(py_range 0 {a[0][0]} 1)' if len(a) == 1 else f'(py_range {a[0][0]} {a[1][0]} 1)'), 'int'
                else:
                    lst, tl = self.expr(it, env, binds)
                    if not tl.startswith('list:') or tl == 'list:?':
                        raise TransError('any over a non-list')
                    elem = tl[5:]
                var = g.generators[0].target.id
                env2 = dict(env)
                env2[var] = (cname(var), elem)
                inner = []
                v, t = self.expr(g.elt, env2, inner)
                if t != 'bool':
                    raise TransError('any of non-booleans')
                x = self.tmp()
                binds.append((x, f'any_m (fun {cname(var)} => {self.wrap(inner, "Ok " + v)}) {lst}'))      # stops at the first true, as any() does
                return x, 'bool'
            if isinstance(f, ast.Name) and f.id == 'sum' and len(e.args) == 1 and isinstance(e.args[0], ast.GeneratorExp):
                g = e.args[0]
                if len(g.generators) != 1 or g.generators[0].ifs or g.generators[0].is_async or not isinstance(g.generators[0].target, ast.Name):
                    raise TransError('sum over a generator with filters or several loops')
                it, tit = self.expr(g.generators[0].iter, env, binds)
                if not tit.startswith('list:') or tit == 'list:?':
                    raise TransError('sum over a non-list')
                var = g.generators[0].target.id
                env2 = dict(env)
                env2[var] = (cname(var), tit[5:])
                inner = []
                v, t = self.expr(g.elt, env2, inner)
                if t != 'int':
                    raise TransError('sum of non-integers')
                x = self.tmp()
                binds.append((x, f'mapM (fun {cname(var)} => {self.wrap(inner, "Ok " + v)}) {it}'))
                return f'(zsum {x})', 'int'
            args = [self.expr(x, env, binds) for x in e.args]
            if isinstance(f, ast.Name):
                if f.id in self.ctors:
                    tag, _, ftypes = CTOR[f.id]
                    if [t for _, t in args] != ftypes:
                        raise TransError(f'constructor {f.id}: argument types')
                    return '(' + ', '.join(a for a, _ in args) + ')', tag
                if f.id == 'get_u8_array' and len(args) == 1 and args[0][1] == 'int' and 'get_u8_array' in getattr(self, 'builtins', ()):
                    x = self.tmp()
                    binds.append((x, f'u8_zeros {args[0][0]}'))
                    return x, 'list:int'
                if f.id == 'len' and len(args) == 1 and (args[0][1].startswith('list:') or args[0][1] == 'dna'):
                    return f'(zlen {args[0][0]})', 'int'
                if f.id == 'replace' and len(e.args) == 1 and isinstance(e.args[0], ast.Name) and e.args[0].id == 'self' and self.cur_self == 'seq' \
                        and len(e.keywords) == 1 and e.keywords[0].arg == 's':
                    v, t = self.expr(e.keywords[0].value, env, binds)
                    if t != 'dna':
                        raise TransError('replace(self, s=...) with something other than DNA text')
                    return f"(mkSeq (s_start {env['self'][0]}) {v})", 'seq'        # the copy keeps its start (prev_nt is not part of the model's seq)
                if f.id == 'DnaStr' and len(args) == 1 and args[0][1] == 'dna' and not e.keywords:
                    return args[0][0], 'dna'       # DnaStr(<DNA text>): the validation cannot fail on a list of nucleotides
                if f.id == 'abs' and len(args) == 1:
                    return f'(Z.abs {args[0][0]})', 'int'
                if f.id in ('max', 'min') and len(args) == 2:
                    return f'(Z.{f.id} {args[0][0]} {args[1][0]})', 'int'
                if f.id == 'str' and len(args) == 1 and args[0][1] == 'int':
                    return f'(zstr {args[0][0]})', 'str'
                if f.id == 'len' and len(args) == 1 and args[0][1] == 'str':
                    return f'(slen {args[0][0]})', 'int'
                if f.id == 'len' and len(args) == 1 and args[0][1] == 'ostr':
                    x = self.tmp()
                    binds.append((x, f'olen {args[0][0]}'))      # len(None) raises
                    return x, 'int'
                if f.id == 'len' and len(args) == 1 and args[0][1] == 'range':
                    return f'(rlen {args[0][0]})', 'int'
                if f.id == 'len' and len(args) == 1 and args[0][1] == 'exon':
                    return f'(x_len {args[0][0]})', 'int'
                if f.id == 'cls' and self.cur_self in self.records and not e.keywords:
                    cname_, fields = next((cn, fl) for cn, (tag, fl) in RECORD_FIELDS.items() if tag == self.cur_self)
                    if [t for _, t in args] != [ANNOT[a_] for _, a_ in fields]:
                        raise TransError(f'constructor of {cname_}: argument types {[t for _, t in args]}')
                    rec = '(' + {'kgpo': 'mkKGpo'}[self.cur_self] + ' ' + ' '.join(a for a, _ in args) + ')'
                    if self.cur_self in self.post_init:
                        pi = self.fns.get(f'{self.cur_self}.__post_init__')
                        if pi is None:
                            raise TransError(f'{cname_}.__post_init__ is not translated')
                        x = self.tmp()
                        binds.append((x, f'{pi.coq_name} {rec}'))
                    return rec, self.cur_self
                if (f.id == 'UIntRange' or (f.id == 'cls' and self.cur_self == 'range')) and len(args) == 2:
                    x = self.tmp()
                    binds.append((x, f'mk_range {args[0][0]} {args[1][0]}'))
                    return x, 'range'
                if f.id in env and env[f.id][1] == 'fn:int->bool':
                    if [t for _, t in args] != ['int'] or e.keywords:
                        raise TransError('call of a callback: argument types')
                    x = self.tmp()
                    binds.append((x, f'{env[f.id][0]} {args[0][0]}'))
                    return x, 'bool'
                if f.id in env and env[f.id][1].startswith('fnval:'):
                    _, _, ptypes, rett = self.fn_tables[env[f.id][1][6:]]
                    if [t for _, t in args] != ptypes or e.keywords:
                        raise TransError(f'call of a function taken from {env[f.id][1][6:]}: argument types')
                    x = self.tmp()
                    binds.append((x, f'{env[f.id][0]} ' + ' '.join(a for a, _ in args)))
                    return x, rett
                fn = self.fns.get(f.id)
                if fn is not None:
                    args = self.bind_args(args, e.keywords, fn, [p_ for p_ in fn.params], f.id, env, binds)
                    x = self.tmp()
                    binds.append((x, (f'{fn.coq_name} ' + ' '.join(a for a, _ in args)).strip()))
                    return x, fn.ret
                raise TransError(f'call of {f.id}')
            if isinstance(f, ast.Attribute) and isinstance(f.value, ast.Name) and f.value.id == 'UIntRange' and f.value.id not in env \
                    and 'range.' + f.attr in self.fns and not self.fns['range.' + f.attr].params[:1] == [('self', 'range')]:
                fn = self.fns['range.' + f.attr]        # a classmethod of UIntRange called on the class
                args = self.bind_args(args, e.keywords, fn, list(fn.params), 'range.' + f.attr, env, binds)
                x = self.tmp()
                binds.append((x, f'{fn.coq_name} ' + ' '.join(a for a, _ in args)))
                return x, fn.ret
            if isinstance(f, ast.Attribute) and f.attr == 'index' and len(args) == 2 and not e.keywords and 'array.index' in getattr(self, 'builtins', ()):
                v, t = self.expr(f.value, env, binds)
                if t != 'list:int' or [ta for _, ta in args] != ['int', 'int']:
                    raise TransError('index() is only translated for an array of bytes')
                x = self.tmp()
                binds.append((x, f'u8_index {v} {args[0][0]} {args[1][0]}'))      # array.index(value, start): ValueError when absent
                return x, 'int'
            if isinstance(f, ast.Attribute):
                v, t = self.expr(f.value, env, binds)
                fn = self.fns.get(f'{t}.{f.attr}')
                if fn is None and t == 'exon' and f'range.{f.attr}' in self.fns:
                    v, t = f'(x_range {v})', 'range'       # an Exon is a UIntRange
                    fn = self.fns[f'range.{f.attr}']
                if fn is not None and getattr(fn, 'mutating', False):
                    raise TransError(f'call of the mutating method {t}.{f.attr}')
                if fn is not None:
                    formal = [p_ for p_ in fn.params if p_[0] != 'self']
                    args = self.bind_args(args, e.keywords, fn, formal, f'{t}.{f.attr}', env, binds)
                    x = self.tmp()
                    binds.append((x, f'{fn.coq_name} {v} ' + ' '.join(a for a, _ in args)))
                    return x, fn.ret
                raise TransError(f'method {t}.{f.attr}')
            raise TransError('call')
        raise TransError(f'expression {type(e).__name__}')

    def as_list(self, x, env, binds):
        """An iterable handed to chain() / extend(): a list, range(a, b), or `range(a, b) if c else []`."""
        if isinstance(x, ast.Call) and isinstance(x.func, ast.Name) and x.func.id == 'range' and not x.keywords and len(x.args) in (1, 2):
            a = [self.expr(y, env, binds) for y in x.args]
            if any(t != 'int' for _, t in a):
                raise TransError('range over non-integers')
            return (f'(py_range 0 {a[0][0]} 1)' if len(a) == 1 else f'(py_range {a[0][0]} {a[1][0]} 1)'), 'list:int'
        if isinstance(x, ast.IfExp):
            c, tc = self.expr(x.test, env, binds)
            if tc != 'bool':
                raise TransError('condition of a conditional iterable')
            ia, ib = [], []
            a, ta = self.as_list(x.body, env, ia)
            b, tb = self.as_list(x.orelse, env, ib)
            if ia or ib:
                raise TransError('conditional iterable whose branches may raise')
            return f'(if {c} then {a} else {b})', self.join(ta, tb)
        v, t = self.expr(x, env, binds)
        if not t.startswith('list:'):
            raise TransError('iterable that is not a list or a range')
        return v, t

    def bind_args(self, args, keywords, fn, formal, key, env, binds):
        """Positional arguments, then keywords by name, then the defaults of the callee (constants)."""
        if len(args) > len(formal):
            raise TransError(f'arity of {key}')
        given = {pn: a for (pn, _), a in zip(formal, args)}
        for k in keywords:
            if k.arg in given or k.arg not in {pn for pn, _ in formal}:
                raise TransError(f'keyword argument {k.arg} of {key}')
            given[k.arg] = self.expr(k.value, env, binds)
        out = []
        for pn, tp in formal:
            if pn not in given:
                if pn not in fn.defaults:
                    raise TransError(f'arity of {key}')
                given[pn] = self.expr(fn.defaults[pn], {}, [])
            a, ta = given[pn]
            out.append(self.coerce(a, ta, tp, key, pn))
        return out

    def pure_chain(self, e) -> bool:
        """A name or a chain of attribute reads on it: evaluating it twice gives the same value (dataclass fields and translated properties)."""
        while isinstance(e, ast.Attribute):
            e = e.value
        return isinstance(e, ast.Name)

    @staticmethod
    def truth(v, t):
        """A value used as a condition."""
        if t == 'bool':
            return v
        if t == 'str':
            return f'(negb (sempty {v}))'
        if t == 'ostr':
            return f'(negb (onull {v}))'
        if t.startswith('list:') or t == 'dna':
            return f'(negb (lempty {v}))'
        raise TransError(f'truth value of a {t}')

    @staticmethod
    def as_text(v, t):
        """How a value appears inside an f-string."""
        if t == 'int':
            return f'(zstr {v})'
        if t in ('str', 'strenum'):
            return v
        if t == 'ostr':
            return f'(fmt_ostr {v})'        # None prints as the text None
        raise TransError(f'formatting of a {t}')

    def format_only(self, key: str, param: str) -> bool:
        """The parameter is used only as a piece of an f-string in the callee (so that handing it None changes the text, never raises)."""
        node = self.nodes.get(key)
        if node is None:
            return False
        inside = set()
        for n in ast.walk(node):
            if isinstance(n, ast.FormattedValue) and isinstance(n.value, ast.Name) and n.value.id == param:
                inside.add(id(n.value))
        return all(id(n) in inside for n in ast.walk(node) if isinstance(n, ast.Name) and n.id == param)

    def coerce(self, a, ta, tp, fkey, pname):
        if ta == tp or (ta == 'strenum' and tp in ('str', 'strenum')):
            return a, tp
        if tp == 'range' and ta == 'exon':
            return f'(x_range {a})', tp      # an Exon is a UIntRange
        if tp == 'ostr' and ta == 'str':
            return f'(Some {a})', tp
        if tp == 'ostr' and ta == 'none':
            return 'None', tp
        if tp == 'dna' and ta == 'str' and (a.startswith('(v_ref_s ') or a.startswith('(v_alt_s ')) and a.endswith(')'):
            return '(v_' + a[3:6] + a[8:], tp            # (v_alt_s v) is string_of_dna (v_alt v): the DNA text itself
        if tp.startswith('option:') and ta == tp[7:]:
            return f'(Some {a})', tp
        if tp.startswith('option:') and ta == 'none':
            return 'None', tp
        if tp == 'str' and ta == 'ostr' and self.format_only(fkey, pname):
            return f'(fmt_ostr {a})', tp      # Python passes the object along; the callee only formats it
        raise TransError(f'argument {pname} of {fkey}: {ta} given, {tp} expected')

    @staticmethod
    def wrap(binds, body):
        for x, m in reversed(binds):
            body = f'do {x} <- {m}; {body}'
        return body

    # ------------------------------------------------------------ statements
    def is_docstring(self, st):
        return isinstance(st, ast.Expr) and isinstance(st.value, ast.Constant) and isinstance(st.value.value, str)

    def raises(self, st):
        if isinstance(st, ast.Raise) and isinstance(st.exc, ast.Call) and isinstance(st.exc.func, ast.Name) and st.exc.func.id in ERR:
            return ERR[st.exc.func.id]
        if isinstance(st, ast.Raise) and isinstance(st.exc, ast.Call) and isinstance(st.exc.func, ast.Name) and st.exc.func.id in self.exc_classes:
            return self.exc_classes[st.exc.func.id]      # a subclass of a built-in exception defined in the translated modules
        if isinstance(st, ast.Raise) and isinstance(st.exc, ast.Name) and st.exc.id in ERR:      # raise SomeError (the class itself)
            return ERR[st.exc.id]
        return None

    def block(self, stmts, env):
        """Translate a statement list that ends in return / raise on every path -> coq term of type result T, and T."""
        stmts = [s for s in stmts if not self.is_docstring(s)]
        if not stmts:
            if self.loops:
                # the end of a loop body: hand the accumulators to the next iteration
                lp = self.loops[-1]
                lp['tails'].append([env[a][1] for a in lp['accs']])
                tup = self.acc_tuple([env[a][0] for a in lp['accs']])
                return (f'Ok (inl {tup})' if (lp['exit'] or lp.get('while')) else f'Ok {tup}'), 'acc'
            if self.procedure and self.mutating:
                return f"Ok {env['self'][0]}", self.cur_self
            if self.procedure:
                return 'Ok tt', 'unit'
            raise TransError('a path without return')
        st, rest = stmts[0], stmts[1:]
        if isinstance(st, ast.Return):
            if st.value is None:
                raise TransError('bare return')
            if self.loops:
                # `return` inside a loop body: leaves every enclosing loop (only one level is translated)
                if len(self.loops) != 1 or not self.loops[-1]['exit']:
                    raise TransError('return inside nested loops')
                if isinstance(st.value, ast.Constant) and st.value.value is None:
                    raise TransError('return None inside a loop')
                binds = []
                v, t = self.expr(st.value, env, binds)
                self.loops[-1]['rets'].append(t)
                val = f'(Some {v})' if self.wrap_some else v
                return self.wrap(binds, f'Ok (inr (inr {val}))' if self.loops[-1].get('while') else f'Ok (inr {val})'), 'acc'
            if isinstance(st.value, ast.Constant) and st.value.value is None:
                return 'Ok None', 'option'
            binds = []
            v, t = self.expr(st.value, env, binds)
            if self.mutating:
                if self.wrap_some or t.startswith('option') or t.startswith('tuple:'):
                    raise TransError('return type of a mutating method')
                return self.wrap(binds, f"Ok ({env['self'][0]}, {v})"), f'tuple:{self.cur_self},{t}'
            return self.wrap(binds, f'Ok (Some {v})' if self.wrap_some else f'Ok {v}'), t
        r = self.raises(st)
        if r:
            return f'Err {r}', None
        # `if x is None: <ends>` on an optional value: the rest of the block sees the value itself
        if isinstance(st, ast.If) and not st.orelse and isinstance(st.test, ast.Compare) and len(st.test.ops) == 1 and isinstance(st.test.ops[0], ast.Is) \
                and isinstance(st.test.left, ast.Name) and isinstance(st.test.comparators[0], ast.Constant) and st.test.comparators[0].value is None \
                and st.test.left.id in env and env[st.test.left.id][1].startswith('option:') and self.ends(st.body):
            name = st.test.left.id
            v, t = env[name]
            a, ta = self.block(st.body, env)
            env2 = dict(env)
            env2[name] = (f'{cname(name)}_v', t[7:])
            b, tb = self.block(rest, env2)
            return f'match {v} with None => {a} | Some {cname(name)}_v => {b} end', self.join(ta, tb)
        # the same for a pure attribute chain (self.field): the rest of the block sees its value through the narrowing table
        if isinstance(st, ast.If) and not st.orelse and isinstance(st.test, ast.Compare) and len(st.test.ops) == 1 and isinstance(st.test.ops[0], ast.Is) \
                and isinstance(st.test.left, ast.Attribute) and self.pure_chain(st.test.left) and isinstance(st.test.comparators[0], ast.Constant) \
                and st.test.comparators[0].value is None and self.ends(st.body):
            pre = []
            v, t = self.expr(st.test.left, env, pre)
            if t.startswith('option:') and not pre:
                a, ta = self.block(st.body, env)
                nv = self.tmp()
                saved = dict(self.narrow)
                self.narrow[ast.dump(st.test.left)] = (nv, t[7:])
                try:
                    b, tb = self.block(rest, env)
                finally:
                    self.narrow = saved
                return f'match {v} with None => {a} | Some {nv} => {b} end', self.join(ta, tb)
        # `assert x and <condition on x>` on an optional range (a range is never empty, hence truthy)
        if isinstance(st, ast.Assert) and isinstance(st.test, ast.BoolOp) and isinstance(st.test.op, ast.And) and isinstance(st.test.values[0], ast.Name) \
                and st.test.values[0].id in env and env[st.test.values[0].id][1] == 'option:range':
            name = st.test.values[0].id
            v, t = env[name]
            env2 = dict(env)
            env2[name] = (f'{cname(name)}_v', 'range')
            binds = []
            conds = [self.expr(x, env2, binds) for x in st.test.values[1:]]
            if binds or any(tc != 'bool' for _, tc in conds):
                raise TransError('assert on an optional range: condition')
            body, tb = self.block(rest, env2)
            c = ' && '.join(cv for cv, _ in conds) or 'true'
            return f'match {v} with None => Err AssertionError | Some {cname(name)}_v => if {c} then {body} else Err AssertionError end', tb
        if isinstance(st, ast.Assert) and isinstance(st.test, ast.BoolOp) and isinstance(st.test.op, ast.And) and all(
                isinstance(x, ast.Compare) and len(x.ops) == 1 and isinstance(x.ops[0], ast.IsNot) and isinstance(x.left, ast.Name)
                and isinstance(x.comparators[0], ast.Constant) and x.comparators[0].value is None and x.left.id in env and env[x.left.id][1].startswith('option:')
                for x in st.test.values):
            env2 = dict(env)
            names = [x.left.id for x in st.test.values]
            for n_ in names:
                env2[n_] = (f'{cname(n_)}_v', env[n_][1][7:])
            body, tb = self.block(rest, env2)
            term = body
            for n_ in reversed(names):
                term = f'match {env[n_][0]} with None => Err AssertionError | Some {cname(n_)}_v => {term} end'
            return term, tb
        if isinstance(st, ast.Assert):
            binds = []
            c, tc = self.expr(st.test, env, binds)
            if tc != 'bool':
                raise TransError('assert of a non-boolean')
            body, t = self.block(rest, env)
            return self.wrap(binds, f'if {c} then {body} else Err AssertionError'), t
        if isinstance(st, ast.Expr) and isinstance(st.value, ast.Call) and isinstance(st.value.func, ast.Name) and st.value.func.id in self.noreturn \
                and not st.value.args:
            return f'{self.fns[st.value.func.id].coq_name}', None       # a call that never returns: the rest is dead
        if isinstance(st, ast.AnnAssign) and isinstance(st.target, ast.Name) and st.value is not None:
            st = ast.Assign(targets=[st.target], value=st.value)
        if isinstance(st, (ast.AugAssign, ast.Assign)) and self.mutating and isinstance(st.target if isinstance(st, ast.AugAssign) else st.targets[0], ast.Attribute):
            tg = st.target if isinstance(st, ast.AugAssign) else st.targets[0]
            rec = next(((tag, ctor, fl) for tag, ctor, fl in MUT_RECORDS.values() if tag == self.cur_self), None)
            if rec is None or not (isinstance(tg.value, ast.Name) and tg.value.id == 'self') or tg.attr not in [f_ for f_, _ in rec[2]] \
                    or (isinstance(st, ast.Assign) and len(st.targets) != 1) or (isinstance(st, ast.AugAssign) and not isinstance(st.op, (ast.Add, ast.Sub))):
                raise TransError('assignment to an attribute')
            binds = []
            v, t = self.expr(st.value, env, binds)
            if t != 'int':
                raise TransError('field assignment of a non-integer')
            cur = env['self'][0]
            parts = []
            for f_, acc in rec[2]:
                old_ = f'({acc} {cur})'
                if f_ == tg.attr:
                    parts.append(v if isinstance(st, ast.Assign) else f'({old_} {"+" if isinstance(st.op, ast.Add) else "-"} {v})')
                else:
                    parts.append(old_)
            env2 = dict(env)
            env2['self'] = ('self', self.cur_self)
            body, tb = self.block(rest, env2)
            return self.wrap(binds, f'let self := ({rec[1]} ' + ' '.join(parts) + f') in {body}'), tb
        if isinstance(st, ast.AugAssign) and isinstance(st.target, ast.Name) and isinstance(st.op, (ast.Add, ast.Sub)):
            name = st.target.id
            if name not in env or env[name][1] != 'int':
                raise TransError('augmented assignment to a non-integer')
            binds = []
            v, t = self.expr(st.value, env, binds)
            if t != 'int':
                raise TransError('augmented assignment of a non-integer')
            env2 = dict(env)
            env2[name] = (cname(name), 'int')
            body, tb = self.block(rest, env2)
            op = '+' if isinstance(st.op, ast.Add) else '-'
            return self.wrap(binds, f'let {cname(name)} := ({env[name][0]} {op} {v}) in {body}'), tb
        if isinstance(st, ast.Expr) and isinstance(st.value, ast.Call) and isinstance(st.value.func, ast.Attribute) and st.value.func.attr == 'append' \
                and isinstance(st.value.func.value, ast.Name) and len(st.value.args) == 1 and not st.value.keywords:
            name = st.value.func.value.id
            if name not in env or not env[name][1].startswith('list:'):
                raise TransError('append to a non-list')
            binds = []
            v, t = self.expr(st.value.args[0], env, binds)
            tl = env[name][1]
            if tl != 'list:?' and tl != 'list:' + t:
                raise TransError(f'append of a {t} to a {tl}')
            env2 = dict(env)
            env2[name] = (cname(name), 'list:' + t)
            body, tb = self.block(rest, env2)
            return self.wrap(binds, f'let {cname(name)} := ({env[name][0]} ++ [{v}]) in {body}'), tb
        if isinstance(st, ast.Expr) and isinstance(st.value, ast.Call) and isinstance(st.value.func, ast.Attribute) and st.value.func.attr == 'extend' \
                and isinstance(st.value.func.value, ast.Name) and len(st.value.args) == 1 and not st.value.keywords:
            name = st.value.func.value.id
            if name not in env or not env[name][1].startswith('list:'):
                raise TransError('extend of a non-list')
            binds = []
            v, t = self.as_list(st.value.args[0], env, binds)
            t2 = self.join(env[name][1], t)
            env2 = dict(env)
            env2[name] = (cname(name), t2)
            body, tb = self.block(rest, env2)
            return self.wrap(binds, f'let {cname(name)} := ({env[name][0]} ++ {v}) in {body}'), tb
        if isinstance(st, ast.While):
            return self.while_loop(st, rest, env)
        if isinstance(st, ast.Try) and not st.orelse and not st.finalbody and len(st.handlers) == 1 and isinstance(st.handlers[0].type, ast.Name) \
                and st.handlers[0].type.id in ERR and st.handlers[0].name is None and self.ends(st.body) and self.ends(st.handlers[0].body) and not self.loops:
            # try: <returns> except SomeError: <returns>  - the handler runs exactly when the body ends in that error
            a, ta = self.block(st.body, env)
            b, tb = self.block(st.handlers[0].body, env)
            return f'match ({a}) with Err {ERR[st.handlers[0].type.id]} => {b} | _r => _r end', self.join(ta, tb)
        if isinstance(st, ast.Assign) and len(st.targets) == 1 and isinstance(st.targets[0], ast.Subscript) and isinstance(st.targets[0].value, ast.Name):
            # a[i] = <byte literal> on an array('B') (any other value could raise OverflowError)
            name = st.targets[0].value.id
            if name not in env or env[name][1] != 'list:int':
                raise TransError('item assignment outside an integer array')
            if not (isinstance(st.value, ast.Constant) and isinstance(st.value.value, int) and not isinstance(st.value.value, bool) and 0 <= st.value.value <= 255):
                raise TransError('item assignment of something other than a byte literal')
            binds = []
            i, ti = self.expr(st.targets[0].slice, env, binds)
            if ti != 'int':
                raise TransError('item assignment at a non-integer index')
            env2 = dict(env)
            env2[name] = (cname(name), 'list:int')
            body, tb = self.block(rest, env2)
            return self.wrap(binds, f'do {cname(name)} <- py_set {env[name][0]} {i} {st.value.value}; {body}'), tb
        if isinstance(st, ast.Expr) and isinstance(st.value, ast.Call) and isinstance(st.value.func, ast.Attribute) and st.value.func.attr not in ('append', 'extend'):
            # a call made for its exception only (self.validate_...(x)): a translated procedure
            binds = []
            v, t = self.expr(st.value, env, binds)
            if t != 'unit':
                raise TransError('expression statement that is not a procedure call')
            body, tb = self.block(rest, env)
            return self.wrap(binds, body), tb
        if isinstance(st, ast.For):
            return self.for_loop(st, rest, env)
        if isinstance(st, ast.Assign) and len(st.targets) == 1 and isinstance(st.targets[0], ast.Tuple) and all(isinstance(x, ast.Name) for x in st.targets[0].elts):
            binds = []
            v, t = self.expr(st.value, env, binds)
            names = [x.id for x in st.targets[0].elts]
            if not t.startswith('tuple:') or len(t[6:].split(',')) != len(names) or len(set(names)) != len(names):
                raise TransError('tuple assignment')
            env2 = dict(env)
            for n_, tn in zip(names, t[6:].split(',')):
                env2[n_] = (cname(n_), tn)
            body, tb = self.block(rest, env2)
            return self.wrap(binds, f"let '({', '.join(cname(n_) for n_ in names)}) := {v} in {body}"), tb
        if isinstance(st, ast.Assign) and len(st.targets) == 1 and isinstance(st.targets[0], ast.Name):
            binds = []
            v, t = self.expr(st.value, env, binds)
            name = st.targets[0].id
            env2 = dict(env)
            env2[name] = (cname(name), t)
            body, tb = self.block(rest, env2)
            return self.wrap(binds, f'let {cname(name)} := {v} in {body}'), tb
        if isinstance(st, ast.If):
            binds = []
            c, tc = self.expr(st.test, env, binds)
            c, tc = self.truth(c, tc), 'bool'
            a, ta = self.block(st.body + ([] if self.ends(st.body) else rest), env)
            b, tb = self.block((st.orelse if st.orelse else []) + ([] if (st.orelse and self.ends(st.orelse)) else rest), env)
            t = self.join(ta, tb)
            return self.wrap(binds, f'if {c} then {a} else {b}'), t
        if isinstance(st, ast.Match):
            binds = []
            v, tv = self.expr(st.subject, env, binds)
            if tv == 'vtype':
                arms, t = [], None
                for case in st.cases:
                    pat = case.pattern
                    if not (isinstance(pat, ast.MatchValue) and isinstance(pat.value, ast.Attribute) and isinstance(pat.value.value, ast.Name)
                            and pat.value.value.id == 'VariantType' and pat.value.attr in VTYPE_MEMBERS):
                        raise TransError('match pattern on a VariantType')
                    body, tb = self.block(case.body, env)
                    t = self.join(t, tb)
                    arms.append((VTYPE_MEMBERS[pat.value.attr], body))
                if {a for a, _ in arms} != set(VTYPE_MEMBERS.values()):
                    raise TransError('match on a VariantType does not cover every member')
                return self.wrap(binds, 'match ' + v + ' with ' + ' | '.join(f'{a} => {b}' for a, b in arms) + ' end'), t
            if tv != 'int':
                raise TransError('match on a non-integer')
            default, branches, t = None, [], None
            for case in st.cases:
                body, tb = self.block(case.body, env)
                t = self.join(t, tb)
                if isinstance(case.pattern, ast.MatchValue) and isinstance(case.pattern.value, ast.Constant) and isinstance(case.pattern.value.value, int):
                    branches.append((case.pattern.value.value, body))
                elif isinstance(case.pattern, ast.MatchAs) and case.pattern.pattern is None:
                    default = body
                else:
                    raise TransError('match pattern')
            if default is None:
                raise TransError('match without a default case')
            term = default
            for k, body in reversed(branches):
                term = f'if {v} =? {k} then {body} else {term}'
            return self.wrap(binds, term), t
        raise TransError(f'statement {type(st).__name__}')

    @staticmethod
    def acc_tuple(names):
        if not names:
            return 'tt'
        return names[0] if len(names) == 1 else '(' + ', '.join(names) + ')'

    @staticmethod
    def acc_pattern(names):
        if not names:
            return '_'
        return names[0] if len(names) == 1 else "'(" + ', '.join(names) + ')'

    def assigned(self, stmts, out):
        """Names (re)bound by a statement list, in order of first appearance."""
        def add(n):
            if n not in out:
                out.append(n)
        for st in stmts:
            if isinstance(st, (ast.Assign, ast.AnnAssign, ast.AugAssign)):
                targets = st.targets if isinstance(st, ast.Assign) else [st.target]
                for t in targets:
                    if isinstance(t, ast.Name):
                        add(t.id)
                    elif isinstance(t, ast.Subscript) and isinstance(t.value, ast.Name):
                        add(t.value.id)
                    else:
                        raise TransError('assignment target inside a loop')
            elif isinstance(st, ast.Expr) and isinstance(st.value, ast.Call) and isinstance(st.value.func, ast.Attribute) \
                    and isinstance(st.value.func.value, ast.Name) and st.value.func.attr in ('append', 'extend'):
                add(st.value.func.value.id)
            elif isinstance(st, ast.If):
                self.assigned(st.body, out)
                self.assigned(st.orelse, out)
            elif isinstance(st, ast.For):
                if not isinstance(st.target, ast.Name):
                    raise TransError('loop target')
                add(st.target.id)
                self.assigned(st.body, out)
            elif isinstance(st, ast.While):
                self.assigned(st.body, out)
            elif isinstance(st, (ast.Return, ast.Raise, ast.Assert, ast.Expr, ast.Pass)):
                if isinstance(st, ast.Expr) and not self.is_docstring(st):
                    raise TransError('expression statement inside a loop')
            else:
                raise TransError(f'statement {type(st).__name__} inside a loop')
        return out

    def for_loop(self, st, rest, env):
        """for x in <list or range>: body  ->  a monadic fold over the variables the body rebinds (fold_m), or, when the body
        can `return`, a fold that can leave early (fold_x).  Variables first bound inside the body do not survive an iteration."""
        if st.orelse or not isinstance(st.target, ast.Name):
            raise TransError('for loop with else / structured target')
        binds = []
        it = st.iter
        if isinstance(it, ast.Call) and isinstance(it.func, ast.Name) and it.func.id == 'range' and not it.keywords and len(it.args) in (1, 2):
            a = [self.expr(x, env, binds) for x in it.args]
            if any(t != 'int' for _, t in a):
                raise TransError('range over non-integers')
            lst, elem = (f'(py_range 0 {a[0][0]} 1)' if len(a) == 1 else f'(py_range {a[0][0]} {a[1][0]} 1)'), 'int'
        else:
            lst, tl = self.expr(it, env, binds)
            if not tl.startswith('list:') or tl == 'list:?':
                raise TransError('for loop over something other than a list or a range')
            elem = tl[5:]
        var = st.target.id
        names = self.assigned(st.body, [])
        if var in names:
            raise TransError('loop variable rebound in the body')
        accs = [n for n in names if n in env]
        has_ret = any(isinstance(n, ast.Return) for b in st.body for n in ast.walk(b))
        if has_ret and self.loops:
            raise TransError('return inside nested loops')
        types = {a: env[a][1] for a in accs}
        for _ in range(4):
            loop_env = dict(env)
            for a in accs:
                loop_env[a] = (cname(a), types[a])
            loop_env[var] = (cname(var), elem)
            self.loops.append({'accs': accs, 'exit': has_ret, 'tails': [], 'rets': []})
            try:
                body, _tb = self.block(st.body, loop_env)
            finally:
                info = self.loops.pop()
            new = dict(types)
            for tail in info['tails']:
                for a, t in zip(accs, tail):
                    if new[a] == 'list:?' and t.startswith('list:'):
                        new[a] = t
                    elif t != new[a] and t != 'list:?':
                        raise TransError(f'loop variable {a} changes type: {new[a]} / {t}')
            if new == types:
                break
            types = new
        else:
            raise TransError('loop accumulator types do not settle')
        env2 = dict(env)
        for a in accs:
            env2[a] = (cname(a), types[a])
        env2.pop(var, None)
        for n in names:
            if n not in accs:
                env2.pop(n, None)
        k = self.tmp()
        pat = self.acc_pattern([cname(a) for a in accs])
        init = self.acc_tuple([env[a][0] for a in accs])
        fn = f'(fun _acc {cname(var)} => let {pat} := _acc in {body})'
        after, ta = self.block(rest, env2)
        if has_ret:
            tr = None
            for t in info['rets']:
                tr = self.join(tr, t)
            term = f'do {k} <- fold_x {fn} {lst} {init}; match {k} with inr _v => Ok _v | inl _acc => let {pat} := _acc in {after} end'
            return self.wrap(binds, term), self.join(tr, ta)
        return self.wrap(binds, f'do {k} <- fold_m {fn} {lst} {init}; let {pat} := {k} in {after}'), ta

    def while_loop(self, st, rest, env):
        """while X > 0 / X >= 0 (X an integer variable the body decreases): recursion on fuel X + 1 (X + 2); running out of fuel - the body did
        not decrease X - is the error value OtherErr.  The body may `return`."""
        if st.orelse:
            raise TransError('while loop with else')
        t_ = st.test
        if not (isinstance(t_, ast.Compare) and len(t_.ops) == 1 and isinstance(t_.ops[0], (ast.Gt, ast.GtE)) and isinstance(t_.left, ast.Name)
                and isinstance(t_.comparators[0], ast.Constant) and t_.comparators[0].value == 0 and t_.left.id in env and env[t_.left.id][1] == 'int'):
            raise TransError('while loop whose condition is not `variable > 0` / `variable >= 0`')
        counter = t_.left.id
        names = self.assigned(st.body, [])
        if counter not in names:
            raise TransError('while loop that never rebinds its counter')
        accs = [n for n in names if n in env]
        has_ret = any(isinstance(n, ast.Return) for b in st.body for n in ast.walk(b))
        if self.loops:
            raise TransError('while loop inside another loop')
        types = {a: env[a][1] for a in accs}
        for _ in range(4):
            loop_env = dict(env)
            for a in accs:
                loop_env[a] = (cname(a), types[a])
            self.loops.append({'accs': accs, 'exit': has_ret, 'while': True, 'tails': [], 'rets': []})
            try:
                cbinds = []
                c, tc = self.expr(st.test, loop_env, cbinds)
                body, _tb = self.block(st.body, loop_env)
            finally:
                info = self.loops.pop()
            new = dict(types)
            for tail in info['tails']:
                for a, t in zip(accs, tail):
                    if new[a] == 'list:?' and t.startswith('list:'):
                        new[a] = t
                    elif t != new[a] and t != 'list:?':
                        raise TransError(f'loop variable {a} changes type: {new[a]} / {t}')
            if new == types:
                break
            types = new
        else:
            raise TransError('loop accumulator types do not settle')
        env2 = dict(env)
        for a in accs:
            env2[a] = (cname(a), types[a])
        for n in names:
            if n not in accs:
                env2.pop(n, None)
        k = self.tmp()
        pat = self.acc_pattern([cname(a) for a in accs])
        tup = self.acc_tuple([cname(a) for a in accs])
        init = self.acc_tuple([env[a][0] for a in accs])
        done = f'Ok (inr (inl {tup}))' if has_ret else f'Ok (inr {tup})'
        fn = f'(fun _acc => let {pat} := _acc in {self.wrap(cbinds, f"if {c} then {body} else {done}")})'
        fuel = f'(S (Z.to_nat {env[counter][0]}))' if isinstance(t_.ops[0], ast.Gt) else f'(S (S (Z.to_nat {env[counter][0]})))'
        after, ta = self.block(rest, env2)
        if has_ret:
            tr = None
            for t in info['rets']:
                tr = self.join(tr, t)
            term = f'do {k} <- while_x {fuel} {fn} {init}; match {k} with inr _v => Ok _v | inl _acc => let {pat} := _acc in {after} end'
            return term, self.join(tr, ta)
        return f'do {k} <- while_m {fuel} {fn} {init}; let {pat} := {k} in {after}', ta

    def ends(self, stmts):
        last = [s for s in stmts if not self.is_docstring(s)][-1]
        if isinstance(last, (ast.Return, ast.Raise)):
            return True
        if isinstance(last, ast.If):
            return bool(last.orelse) and self.ends(last.body) and self.ends(last.orelse)
        if isinstance(last, ast.Match):
            return all(self.ends(c.body) for c in last.cases)
        return False

    @staticmethod
    def join(a, b):
        if a is None:
            return b
        if b is None:
            return a
        if a == b:
            return a
        for x, y in ((a, b), (b, a)):
            if x == 'list:?' and y.startswith('list:'):
                return y
            if x == 'option' and y in ('range', 'int'):
                return 'option:' + y
            if x.startswith('option:') and y in (x[7:], 'option'):
                return x
        raise TransError(f'branches return different types: {a} / {b}')

    # ------------------------------------------------------------ module level: enums and integer constants
    def module_facts(self, trees):
        for tree in trees.values():
            for c in tree.body:
                if isinstance(c, ast.ClassDef) and any(ast.unparse(b) == 'Enum' for b in c.bases):
                    members = {}
                    for st in c.body:
                        if isinstance(st, ast.Assign) and len(st.targets) == 1 and isinstance(st.targets[0], ast.Name) \
                                and isinstance(st.value, ast.Constant) and isinstance(st.value.value, str):
                            members[st.targets[0].id] = st.value.value
                    if members:
                        self.str_enums[c.name] = members
                if isinstance(c, ast.ClassDef) and c.name in CTOR:
                    fields = [(st.target.id, ast.unparse(st.annotation)) for st in c.body if isinstance(st, ast.AnnAssign) and isinstance(st.target, ast.Name)]
                    _, fnames, ftypes = CTOR[c.name]
                    if [n for n, _ in fields] != fnames or [ANNOT.get(a) for _, a in fields] != ftypes \
                            or any(isinstance(st, ast.FunctionDef) for st in c.body) or not any('dataclass' in ast.unparse(d) for d in c.decorator_list):
                        raise TransError(f'dataclass {c.name}: fields {fields}')
                    self.ctors.add(c.name)
                if isinstance(c, ast.ClassDef) and c.name in PARTIAL_FIELDS:
                    fields = {st.target.id: ast.unparse(st.annotation) for st in c.body if isinstance(st, ast.AnnAssign) and isinstance(st.target, ast.Name)}
                    tag, want = PARTIAL_FIELDS[c.name]
                    if any(fields.get(k_) != v_ for k_, v_ in want.items()):
                        raise TransError(f'record {c.name}: fields {fields}')
                    self.records.add(tag)
                if isinstance(c, ast.ClassDef) and c.name in MUT_RECORDS:
                    fields = [(st.target.id, ast.unparse(st.annotation)) for st in c.body if isinstance(st, ast.AnnAssign) and isinstance(st.target, ast.Name)]
                    if fields != [(f_, 'int') for f_, _ in MUT_RECORDS[c.name][2]]:
                        raise TransError(f'record {c.name}: fields {fields}')
                    self.mut_ok.add(MUT_RECORDS[c.name][0])
                if isinstance(c, ast.ClassDef) and c.name in RECORD_FIELDS:
                    fields = [(st.target.id, ast.unparse(st.annotation)) for st in c.body if isinstance(st, ast.AnnAssign) and isinstance(st.target, ast.Name)]
                    if fields != RECORD_FIELDS[c.name][1] or not any('dataclass' in ast.unparse(d) for d in c.decorator_list):
                        raise TransError(f'record {c.name}: fields {fields}')
                    self.records.add(RECORD_FIELDS[c.name][0])
                if isinstance(c, ast.ClassDef) and len(c.bases) == 1 and isinstance(c.bases[0], ast.Name) and c.bases[0].id in ('ValueError', 'AssertionError', 'RuntimeError'):
                    self.exc_classes[c.name] = ERR[c.bases[0].id]
                if isinstance(c, ast.ClassDef) and c.name in RECORD_FIELDS and any(isinstance(f_, ast.FunctionDef) and f_.name == '__post_init__' for f_ in c.body):
                    self.post_init.add(RECORD_FIELDS[c.name][0])
                if isinstance(c, ast.ClassDef) and c.name == 'SearchType':
                    vals = {st.targets[0].id: st.value.value for st in c.body if isinstance(st, ast.Assign) and len(st.targets) == 1
                            and isinstance(st.targets[0], ast.Name) and isinstance(st.value, ast.Constant)}
                    if vals != {m: v for m, (_, v) in SEARCH_MEMBERS.items()} or [ast.unparse(b) for b in c.bases] != ['IntEnum']:
                        raise TransError(f'SearchType members {vals}')
                    self.search_ok = True
                if isinstance(c, ast.ClassDef) and c.name == 'VariantType':
                    vals = {}
                    for st in c.body:
                        if isinstance(st, ast.Assign) and len(st.targets) == 1 and isinstance(st.targets[0], ast.Name) \
                                and isinstance(st.value, ast.Constant) and isinstance(st.value.value, int):
                            vals[st.targets[0].id] = st.value.value
                    if set(vals) != set(VTYPE_MEMBERS):
                        raise TransError(f'VariantType members {sorted(vals)}')
                    self.out.append('Definition vtype_value (v : vtype) : Z :=\n  match v with ' +
                                    ' | '.join(f'{VTYPE_MEMBERS[m]} => {vals[m]}' for m in VTYPE_MEMBERS) + ' end.\n')
        for tree in trees.values():
            for st in tree.body:
                if isinstance(st, ast.AnnAssign) and isinstance(st.target, ast.Name) and st.target.id == 'SEARCH_F' and isinstance(st.value, ast.Dict) and self.search_ok:
                    # a dictionary from SearchType members to array_utils functions: total over the members, values among the known builtins
                    entries = {}
                    for k, v in zip(st.value.keys, st.value.values):
                        if not (isinstance(k, ast.Attribute) and isinstance(k.value, ast.Name) and k.value.id == 'SearchType' and k.attr in SEARCH_MEMBERS
                                and isinstance(v, ast.Name) and v.id in ARRAY_BUILTINS and v.id in getattr(self, 'builtins', ())):
                            raise TransError('SEARCH_F entry')
                        entries[k.attr] = ARRAY_BUILTINS[v.id]
                    if set(entries) != set(SEARCH_MEMBERS):
                        raise TransError('SEARCH_F is not total over SearchType')
                    self.out.append('Definition k_SEARCH_F (s : search) : list Z -> Z -> Z -> result (option Z) :=\n  match s with ' +
                                    ' | '.join(f'{SEARCH_MEMBERS[m][0]} => {entries[m]}' for m in SEARCH_MEMBERS) + ' end.\n')
                    self.fn_tables['SEARCH_F'] = ('k_SEARCH_F', 'search', ['list:int', 'int', 'int'], 'option:int')
                if isinstance(st, ast.AnnAssign) and isinstance(st.target, ast.Name) and st.value is not None and ast.unparse(st.annotation) == 'int':
                    try:
                        v, t = self.expr(st.value, {}, [])
                    except TransError:
                        continue
                    if t == 'int':
                        self.out.append(f'Definition {cname(st.target.id)} : Z := {v}.\n')
                        self.consts[st.target.id] = (cname(st.target.id), 'int')
                if isinstance(st, ast.Assign) and len(st.targets) == 1 and isinstance(st.targets[0], ast.Name) and st.targets[0].id.isupper() \
                        and isinstance(st.value, ast.Constant) and isinstance(st.value.value, str) and st.targets[0].id in getattr(self, 'wanted_consts', ()):
                    self.out.append(f'Definition {cname(st.targets[0].id)} : string := {coq_string(st.value.value)}%string.\n')
                    self.consts[st.targets[0].id] = (cname(st.targets[0].id), 'str')

    # ------------------------------------------------------------ functions
    def function(self, node: ast.FunctionDef, key: str, coq_name: str, self_type: str | None):
        params = []
        self.cur_self = self_type
        for a in node.args.args:
            if a.arg in ('self', 'cls'):
                if self_type is None:
                    raise TransError('self outside a class')
                if a.arg == 'self':
                    params.append((a.arg, self_type))
                continue
            if a.annotation is None:
                raise TransError(f'{key}: unannotated parameter {a.arg}')
            ann = ast.unparse(a.annotation)
            if ann in self.str_enums:
                params.append((a.arg, 'strenum'))
                continue
            if ann not in ANNOT:
                raise TransError(f'{key}: parameter type {ann}')
            params.append((a.arg, 'dna' if (key, a.arg) in DNA_PARAMS and ann == 'str' else ANNOT[ann]))
        env = {n: (cname(n), t) for n, t in params}
        defaults = {}
        pos = [a for a in node.args.args if a.arg not in ('self', 'cls')]
        for a, dv in zip(pos[len(pos) - len(node.args.defaults):], node.args.defaults):
            if not (isinstance(dv, ast.Constant) and (dv.value is None or isinstance(dv.value, (bool, int)))):
                raise TransError(f'{key}: default value of {a.arg}')
            defaults[a.arg] = dv
        if node.args.kwonlyargs or node.args.vararg or node.args.kwarg:
            raise TransError(f'{key}: parameter kinds')
        self.procedure = node.returns is not None and ast.unparse(node.returns) == 'None'
        self.mutating = any(isinstance(n_, (ast.Assign, ast.AugAssign)) and any(isinstance(tg_, ast.Attribute) and isinstance(tg_.value, ast.Name) and tg_.value.id == 'self'
                                                                               for tg_ in (n_.targets if isinstance(n_, ast.Assign) else [n_.target])) for n_ in ast.walk(node))
        if self.mutating and self_type not in self.mut_ok:
            raise TransError(f'{key}: assigns fields of a record that is not known as mutable')
        self.nodes[key] = node
        body, ret = self.block(node.body, env)
        if ret is None and node.returns is not None and ast.unparse(node.returns) == 'NoReturn':
            if params:
                raise TransError(f'{key}: NoReturn function with parameters')
            self.noreturn.add(key)
            self.fns[key] = Fn(coq_name, params, 'unit')
            self.out.append(f'Definition {coq_name} {{X}} : result X :=\n  {body}.\n')
            return
        if ret is None:
            raise TransError(f'{key}: no returning path')
        if ret.startswith('option'):
            if ret == 'option':
                raise TransError(f'{key}: returns only None')
            self.wrap_some = True       # second pass: values are wrapped in Some
            try:
                self.fresh = 0
                body, _ = self.block(node.body, env)
            finally:
                self.wrap_some = False
        self.fns[key] = Fn(coq_name, params, ret, defaults)
        self.fns[key].mutating = self.mutating
        sig = ' '.join(f'({cname(n)} : {coq_type(t)})' for n, t in params)
        self.out.append(f'Definition {coq_name} {sig} : result {self.coq_ret(ret)} :=\n  {body}.\n')

    @staticmethod
    def coq_ret(t):
        return coq_type(t)


def translate(sources: dict[str, str], targets: list[tuple[str, str, str, str | None]], wanted_consts: tuple = (), builtins: tuple = ()) -> str:
    """sources: {module: text}; targets: [(module, python name or Class.name, coq name, type tag of self or None)] in dependency order."""
    tr = Translator()
    tr.wanted_consts = wanted_consts
    tr.builtins = builtins
    trees = {m: ast.parse(s) for m, s in sources.items()}
    tr.module_facts(trees)
    for mod, pyname, coq_name, self_type in targets:
        node = None
        if '.' in pyname:
            cls, meth = pyname.split('.')
            for c in trees[mod].body:
                if isinstance(c, ast.ClassDef) and c.name == cls:
                    for f in c.body:
                        if isinstance(f, ast.FunctionDef) and f.name == meth:
                            node = f
            key = f'{self_type}.{meth}'
        else:
            for f in trees[mod].body:
                if isinstance(f, ast.FunctionDef) and f.name == pyname:
                    node = f
            key = pyname
        if node is None:
            raise TransError(f'{mod}: {pyname} not found')
        tr.function(node, key, coq_name, self_type)
    return '\n'.join(tr.out)
