"""A small fail-closed translator from a restricted subset of Python (pure integer / range arithmetic of VaLiAnT's kernels)
to Gallina.  It is run on every check (harness/gen_facts.py, extractor `Kernels`) and writes coq/Generated/Kernels.v; the
theorems of coq/Proofs/KernelEquiv.v state that each generated definition equals the hand-written model definition for all
inputs, so an edit of one of these source functions changes the generated definition and the equivalence no longer checks.

Subset: functions / methods / properties whose body is made of `assert`, `if` (with return / raise), assignments to fresh
locals, `match` on an integer with literal cases, and a final `return`; expressions over ints, booleans, tuples,
`UIntRange(...)` constructions, calls of other translated functions, and attributes of typed arguments.  Anything else
raises TransError (the generated file then says `fact_extracted := false`).

Every translated function returns `result T`: Python exceptions are explicit (`assert` -> AssertionError, `raise
ValueError` -> ValueError, the UIntRange constructor check -> ValueError)."""
from __future__ import annotations

import ast


class TransError(Exception):
    pass


COQ_KEYWORDS = {'end', 'in', 'as', 'at', 'fun', 'match', 'with', 'return', 'then', 'else', 'if', 'let', 'Type', 'Set', 'Prop', 'forall', 'exists', 'fix', 'struct', 'where'}


def cname(n: str) -> str:
    return n + '_' if n in COQ_KEYWORDS else n


# attribute access on typed values -> Coq accessor
ATTR = {
    ('exon', 'start'): ('x_start', 'int'), ('exon', 'end'): ('x_end', 'int'), ('exon', 'frame'): ('x_frame', 'int'), ('exon', 'index'): ('x_index', 'int'),
    ('range', 'start'): ('rs', 'int'), ('range', 'end'): ('re', 'int'),
    ('strand', 'is_plus'): ('is_plus', 'bool'),
    ('pt', 'offset'): ('pt_offset', 'int'), ('pt', 'span'): ('pt_span', 'int'),
    ('cds', 'start'): ('c_start', 'int'), ('cds', 'end'): ('c_end', 'int'),
    ('tcfg', 'ref'): ('t_ref', 'range'), ('tcfg', 'region_2'): ('t_r2', 'range'),
    ('tcfg', 'region_1_length'): ('t_e1', 'int'), ('tcfg', 'region_3_length'): ('t_e3', 'int'),
}
# python annotation -> model type tag
ANNOT = {'int': 'int', 'bool': 'bool', 'Strand': 'strand', 'Exon': 'exon', 'UIntRange': 'range', 'IntPatternBuilder': 'pt', 'CdsSeq': 'cds',
         'TargetonConfig': 'tcfg'}
COQ_TYPE = {'int': 'Z', 'bool': 'bool', 'strand': 'strand', 'exon': 'exon', 'range': 'range', 'pt': 'pt', 'cds': 'cds_seq', 'tcfg': 'tcfg', 'unit': 'unit'}
ERR = {'ValueError': 'ValueError', 'AssertionError': 'AssertionError'}


class Fn:
    def __init__(self, coq_name, params, ret):
        self.coq_name, self.params, self.ret = coq_name, params, ret      # params: [(name, type tag)], ret: type tag


class Translator:
    def __init__(self):
        self.fns: dict[str, Fn] = {}       # python call name (function, or Class.method / Class.property) -> Fn
        self.out: list[str] = []
        self.fresh = 0
        self.wrap_some = False
        self.cur_self = None
        self.procedure = False

    # ------------------------------------------------------------ expressions
    def tmp(self):
        self.fresh += 1
        return f'_t{self.fresh}'

    def expr(self, e, env, binds):
        """-> (coq term, type tag); monadic sub-computations are appended to binds as (var, term)."""
        if isinstance(e, ast.Constant):
            if isinstance(e.value, bool):
                return ('true' if e.value else 'false'), 'bool'
            if isinstance(e.value, int):
                return (f'({e.value})' if e.value < 0 else str(e.value)), 'int'
            raise TransError(f'constant {e.value!r}')
        if isinstance(e, ast.Name):
            if e.id not in env:
                raise TransError(f'unknown name {e.id}')
            return env[e.id]
        if isinstance(e, ast.Tuple):
            parts = [self.expr(x, env, binds) for x in e.elts]
            return '(' + ', '.join(p for p, _ in parts) + ')', 'tuple:' + ','.join(t for _, t in parts)
        if isinstance(e, ast.UnaryOp):
            v, t = self.expr(e.operand, env, binds)
            if isinstance(e.op, ast.USub) and t == 'int':
                return f'(- {v})', 'int'
            if isinstance(e.op, ast.Not) and t == 'bool':
                return f'(negb {v})', 'bool'
            raise TransError('unary operator')
        if isinstance(e, ast.BinOp):
            a, ta = self.expr(e.left, env, binds)
            b, tb = self.expr(e.right, env, binds)
            ops = {ast.Add: '+', ast.Sub: '-', ast.Mult: '*', ast.FloorDiv: '/', ast.Mod: 'mod'}
            if type(e.op) not in ops or ta != 'int' or tb != 'int':
                raise TransError('binary operator')
            return f'({a} {ops[type(e.op)]} {b})', 'int'
        if isinstance(e, ast.BoolOp):
            vals = [self.expr(x, env, binds) for x in e.values]
            if isinstance(e.op, ast.Or) and len(vals) == 2 and vals[0][1] == 'option:range' and vals[1][1] == 'range':
                return f'(match {vals[0][0]} with Some _r => _r | None => {vals[1][0]} end)', 'range'     # `x or default` on an optional range
            if any(t != 'bool' for _, t in vals):
                raise TransError('boolean operator on non-booleans')
            op = ' && ' if isinstance(e.op, ast.And) else ' || '
            return '(' + op.join(v for v, _ in vals) + ')', 'bool'
        if isinstance(e, ast.Compare):
            left = e.left
            terms = []
            for op, right in zip(e.ops, e.comparators):
                if isinstance(op, (ast.In, ast.NotIn)):
                    a, ta = self.expr(left, env, binds)
                    b, tb = self.expr(right, env, binds)
                    if tb == 'exon':
                        b, tb = f'(x_range {b})', 'range'
                    if tb != 'range' or ta not in ('int', 'range'):
                        raise TransError('`in` is only translated for a position or a range in a range / exon')
                    t = f'(in_range {a} {b})' if ta == 'int' else f'(range_in {a} {b})'
                    terms.append(t if isinstance(op, ast.In) else f'(negb {t})')
                else:
                    a, ta = self.expr(left, env, binds)
                    b, tb = self.expr(right, env, binds)
                    if ta != 'int' or tb != 'int':
                        raise TransError('comparison of non-integers')
                    sym = {ast.Lt: ('<?', False), ast.LtE: ('<=?', False), ast.Gt: ('<?', True), ast.GtE: ('<=?', True),
                           ast.Eq: ('=?', False), ast.NotEq: ('=?', None)}.get(type(op))
                    if sym is None:
                        raise TransError('comparison operator')
                    s, flip = sym
                    t = f'({b} {s} {a})' if flip else f'({a} {s} {b})'
                    terms.append(f'(negb {t})' if flip is None else t)
                left = right
            return ('(' + ' && '.join(terms) + ')' if len(terms) > 1 else terms[0]), 'bool'
        if isinstance(e, ast.IfExp):
            c, tc = self.expr(e.test, env, binds)
            inner_a, inner_b = [], []
            a, ta = self.expr(e.body, env, inner_a)
            b, tb = self.expr(e.orelse, env, inner_b)
            if inner_a or inner_b:
                # only the taken branch is evaluated in Python: a call that may raise can be hoisted out of the conditional only when
                # both branches make exactly the same calls
                if [m for _, m in inner_a] != [m for _, m in inner_b]:
                    raise TransError('different calls that may raise in the two branches of a conditional expression')
                for (xa, _), (xb, _) in zip(inner_a, inner_b):
                    b = b.replace(xb, xa)
                binds.extend(inner_a)
            if tc != 'bool' or ta != tb:
                raise TransError('conditional expression types')
            return f'(if {c} then {a} else {b})', ta
        if isinstance(e, ast.Attribute):
            v, t = self.expr(e.value, env, binds)
            key = (t, e.attr)
            if key in ATTR:
                acc, ty = ATTR[key]
                return f'({acc} {v})', ty
            prop = self.fns.get(f'{t}.{e.attr}')
            if prop is not None:
                x = self.tmp()
                binds.append((x, f'{prop.coq_name} {v}'))
                return x, prop.ret
            raise TransError(f'attribute {t}.{e.attr}')
        if isinstance(e, ast.Call):
            f = e.func
            if e.keywords:
                raise TransError('keyword arguments')
            if isinstance(f, ast.Name) and f.id == 'list' and len(e.args) == 1 and isinstance(e.args[0], ast.Call) \
                    and isinstance(e.args[0].func, ast.Name) and e.args[0].func.id == 'range' and len(e.args[0].args) == 3:
                a3 = [self.expr(x, env, binds) for x in e.args[0].args]
                if any(t != 'int' for _, t in a3):
                    raise TransError('range over non-integers')
                return f'(py_range {a3[0][0]} {a3[1][0]} {a3[2][0]})', 'list:int'
            args = [self.expr(x, env, binds) for x in e.args]
            if isinstance(f, ast.Name):
                if f.id == 'abs' and len(args) == 1:
                    return f'(Z.abs {args[0][0]})', 'int'
                if f.id in ('max', 'min') and len(args) == 2:
                    return f'(Z.{f.id} {args[0][0]} {args[1][0]})', 'int'
                if f.id == 'len' and len(args) == 1 and args[0][1] == 'range':
                    return f'(rlen {args[0][0]})', 'int'
                if f.id == 'len' and len(args) == 1 and args[0][1] == 'exon':
                    return f'(x_len {args[0][0]})', 'int'
                if (f.id == 'UIntRange' or (f.id == 'cls' and self.cur_self == 'range')) and len(args) == 2:
                    x = self.tmp()
                    binds.append((x, f'mk_range {args[0][0]} {args[1][0]}'))
                    return x, 'range'
                fn = self.fns.get(f.id)
                if fn is not None:
                    if len(args) != len(fn.params):
                        raise TransError(f'arity of {f.id}')
                    x = self.tmp()
                    binds.append((x, f'{fn.coq_name} ' + ' '.join(a for a, _ in args)))
                    return x, fn.ret
                raise TransError(f'call of {f.id}')
            if isinstance(f, ast.Attribute):
                v, t = self.expr(f.value, env, binds)
                fn = self.fns.get(f'{t}.{f.attr}')
                if fn is not None:
                    x = self.tmp()
                    binds.append((x, f'{fn.coq_name} {v} ' + ' '.join(a for a, _ in args)))
                    return x, fn.ret
                raise TransError(f'method {t}.{f.attr}')
            raise TransError('call')
        raise TransError(f'expression {type(e).__name__}')

    @staticmethod
    def wrap(binds, body):
        for x, m in reversed(binds):
            body = f'do {x} <- {m}; {body}'
        return body

    # ------------------------------------------------------------ statements
    def is_docstring(self, st):
        return isinstance(st, ast.Expr) and isinstance(st.value, ast.Constant) and isinstance(st.value.value, str)

    def raises(self, st):
        if isinstance(st, ast.Raise) and isinstance(st.exc, ast.Call) and isinstance(st.exc.func, ast.Name) and st.exc.func.id in ERR:
            return ERR[st.exc.func.id]
        return None

    def block(self, stmts, env):
        """Translate a statement list that ends in return / raise on every path -> coq term of type result T, and T."""
        stmts = [s for s in stmts if not self.is_docstring(s)]
        if not stmts:
            if self.procedure:
                return 'Ok tt', 'unit'
            raise TransError('a path without return')
        st, rest = stmts[0], stmts[1:]
        if isinstance(st, ast.Return):
            if st.value is None:
                raise TransError('bare return')
            if isinstance(st.value, ast.Constant) and st.value.value is None:
                return 'Ok None', 'option'
            binds = []
            v, t = self.expr(st.value, env, binds)
            return self.wrap(binds, f'Ok (Some {v})' if self.wrap_some else f'Ok {v}'), t
        r = self.raises(st)
        if r:
            return f'Err {r}', None
        if isinstance(st, ast.Assert):
            binds = []
            c, tc = self.expr(st.test, env, binds)
            if tc != 'bool':
                raise TransError('assert of a non-boolean')
            body, t = self.block(rest, env)
            return self.wrap(binds, f'if {c} then {body} else Err AssertionError'), t
        if isinstance(st, ast.Assign) and len(st.targets) == 1 and isinstance(st.targets[0], ast.Name):
            binds = []
            v, t = self.expr(st.value, env, binds)
            name = st.targets[0].id
            env2 = dict(env)
            env2[name] = (cname(name), t)
            body, tb = self.block(rest, env2)
            return self.wrap(binds, f'let {cname(name)} := {v} in {body}'), tb
        if isinstance(st, ast.If):
            binds = []
            c, tc = self.expr(st.test, env, binds)
            if tc != 'bool':
                raise TransError('if on a non-boolean')
            a, ta = self.block(st.body + ([] if self.ends(st.body) else rest), env)
            b, tb = self.block((st.orelse if st.orelse else []) + ([] if (st.orelse and self.ends(st.orelse)) else rest), env)
            t = self.join(ta, tb)
            return self.wrap(binds, f'if {c} then {a} else {b}'), t
        if isinstance(st, ast.Match):
            binds = []
            v, tv = self.expr(st.subject, env, binds)
            if tv != 'int':
                raise TransError('match on a non-integer')
            default, branches, t = None, [], None
            for case in st.cases:
                body, tb = self.block(case.body, env)
                t = self.join(t, tb)
                if isinstance(case.pattern, ast.MatchValue) and isinstance(case.pattern.value, ast.Constant) and isinstance(case.pattern.value.value, int):
                    branches.append((case.pattern.value.value, body))
                elif isinstance(case.pattern, ast.MatchAs) and case.pattern.pattern is None:
                    default = body
                else:
                    raise TransError('match pattern')
            if default is None:
                raise TransError('match without a default case')
            term = default
            for k, body in reversed(branches):
                term = f'if {v} =? {k} then {body} else {term}'
            return self.wrap(binds, term), t
        raise TransError(f'statement {type(st).__name__}')

    def ends(self, stmts):
        last = [s for s in stmts if not self.is_docstring(s)][-1]
        if isinstance(last, (ast.Return, ast.Raise)):
            return True
        if isinstance(last, ast.If):
            return bool(last.orelse) and self.ends(last.body) and self.ends(last.orelse)
        if isinstance(last, ast.Match):
            return all(self.ends(c.body) for c in last.cases)
        return False

    @staticmethod
    def join(a, b):
        if a is None:
            return b
        if b is None:
            return a
        if a == b:
            return a
        for x, y in ((a, b), (b, a)):
            if x == 'option' and y in ('range', 'int'):
                return 'option:' + y
            if x.startswith('option:') and y in (x[7:], 'option'):
                return x
        raise TransError(f'branches return different types: {a} / {b}')

    # ------------------------------------------------------------ functions
    def function(self, node: ast.FunctionDef, key: str, coq_name: str, self_type: str | None):
        params = []
        self.cur_self = self_type
        for a in node.args.args:
            if a.arg in ('self', 'cls'):
                if self_type is None:
                    raise TransError('self outside a class')
                if a.arg == 'self':
                    params.append((a.arg, self_type))
                continue
            if a.annotation is None:
                raise TransError(f'{key}: unannotated parameter {a.arg}')
            ann = ast.unparse(a.annotation)
            if ann not in ANNOT:
                raise TransError(f'{key}: parameter type {ann}')
            params.append((a.arg, ANNOT[ann]))
        env = {n: (cname(n), t) for n, t in params}
        self.procedure = node.returns is not None and ast.unparse(node.returns) == 'None'
        body, ret = self.block(node.body, env)
        if ret is None:
            raise TransError(f'{key}: no returning path')
        if ret.startswith('option'):
            if ret == 'option':
                raise TransError(f'{key}: returns only None')
            self.wrap_some = True       # second pass: values are wrapped in Some
            try:
                self.fresh = 0
                body, _ = self.block(node.body, env)
            finally:
                self.wrap_some = False
        self.fns[key] = Fn(coq_name, params, ret)
        sig = ' '.join(f'({cname(n)} : {COQ_TYPE[t]})' for n, t in params)
        self.out.append(f'Definition {coq_name} {sig} : result {self.coq_ret(ret)} :=\n  {body}.\n')

    @staticmethod
    def coq_ret(t):
        if t.startswith('tuple:'):
            return '(' + ' * '.join(COQ_TYPE[x] for x in t[6:].split(',')) + ')'
        if t == 'list:int':
            return '(list Z)'
        if t.startswith('option:'):
            return f'(option {COQ_TYPE[t[7:]]})'
        return COQ_TYPE[t]


def translate(sources: dict[str, str], targets: list[tuple[str, str, str, str | None]]) -> str:
    """sources: {module: text}; targets: [(module, python name or Class.name, coq name, type tag of self or None)] in dependency order."""
    tr = Translator()
    trees = {m: ast.parse(s) for m, s in sources.items()}
    for mod, pyname, coq_name, self_type in targets:
        node = None
        if '.' in pyname:
            cls, meth = pyname.split('.')
            for c in trees[mod].body:
                if isinstance(c, ast.ClassDef) and c.name == cls:
                    for f in c.body:
                        if isinstance(f, ast.FunctionDef) and f.name == meth:
                            node = f
            key = f'{self_type}.{meth}'
        else:
            for f in trees[mod].body:
                if isinstance(f, ast.FunctionDef) and f.name == pyname:
                    node = f
            key = pyname
        if node is None:
            raise TransError(f'{mod}: {pyname} not found')
        tr.function(node, key, coq_name, self_type)
    return '\n'.join(tr.out)
