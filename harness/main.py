from __future__ import annotations

import argparse
import json
import os
import sys

from . import common, runner


def main() -> int:
    ap = argparse.ArgumentParser()
    ap.add_argument('prop', nargs='?')
    ap.add_argument('--tier', default=os.environ.get('VERIF_TIER', 'quick'), choices=['quick', 'thorough'])
    ap.add_argument('--setup', action='store_true')
    ap.add_argument('--replay')
    ap.add_argument('--selftest', action='store_true')
    ap.add_argument('--coqchk', action='store_true', help='re-check every compiled Props file with the independent checker and list the axioms')
    a = ap.parse_args()
    if a.setup:
        b = runner.build(verbose=False)
        print('setup:', 'ok' if b['ok'] else 'FAILED', f"({b['wall_s']}s)", b.get('facts'))
        if not b['ok']:
            print(b['log'][-3000:])
            for rel, ok in b.get('status', {}).items():
                if not ok:
                    print('not built:', rel)
        return 0 if b['ok'] else 1
    if a.coqchk:
        import glob, subprocess
        b = runner.build(verbose=False)
        mods = ['VV.Props.' + os.path.basename(f)[:-3] for f in sorted(glob.glob(os.path.join(common.COQ, 'Props', '*.vo')))]
        p = subprocess.run(['timeout', '3000', 'coqchk', '-silent', '-o', '-Q', '.', 'VV'] + mods, cwd=common.COQ, capture_output=True, text=True)
        out = '\n'.join(l for l in (p.stdout + p.stderr).splitlines() if l.strip())
        with open(os.path.join(common.VERIF, 'coqchk.txt'), 'w') as fh:
            fh.write('$ cd coq && coqchk -silent -o -Q . VV ' + ' '.join(mods) + '\n' + out + f'\nexit status {p.returncode}\n')
        print(out)
        return 0 if (b['ok'] and p.returncode == 0 and 'Axioms: <none>' in out) else 1
    if not a.prop:
        ap.error('property id required')
    return runner.run_property(a.prop.upper(), a.tier, a.replay)


if __name__ == '__main__':
    sys.exit(main())
