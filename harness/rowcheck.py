"""Shared exploration for the row-level properties (C01, C07, C09, C10, C11, C20): run designs with the MetaRow
recorder, pair rows with outputs, and compare every row with the Coq model of the to_csv loop body."""
from __future__ import annotations

from . import common, rows, sge
from .runner import Ctx, coq_eval_codes, coq_eval_groups, pool_map

IMPORTS = ['Model.Base', 'Model.Pattern', 'Model.Seq', 'Model.Vcf', 'Model.Mave', 'Model.Gpo', 'Model.ToCsv', 'Model.ToCsvGlue']


def _rec(d):
    try:
        return d, rows.run_recorded(d)
    except rows.AdaptorError as ex:
        return d, {'adaptor_error': str(ex), 'exit': -1, 'files': {}, 'targetons': [], 'exc': 'AdaptorError', 'exc_msg': str(ex), 'log': []}


def run_designs(designs):
    return pool_map(_rec, designs)


FIELD_BITS = {'ref': 1, 'mave_nt': 2, 'mave_nt_ref': 4, 'mseq_no_adapt': 8, 'mseq': 16, 'oligo_length': 32, 'included': 64,
              'vcf_ref': 128, 'vcf_pam': 256}


def model_rows(ctx: Ctx, results, what: str = 'to_csv row', fields=None):
    """Compare each written row with the model.  `fields` (names of FIELD_BITS) is the calling property's
    projection: only disagreements on those fields count.  Adds r['targetons'][i]['pairs']."""
    groups, index = [], []
    for di, (d, r) in enumerate(results):
        if r.get('adaptor_error'):
            ctx.violation('correspondence', 'row recorder adaptor failed: ' + r['adaptor_error'], broken='S-api adaptor valiant.meta_table.MetaRow/MetaTable.to_csv', no_input=True)
            continue
        if r['exit'] != 0:
            continue
        for ti, t in enumerate(r['targetons']):
            try:
                pairs = rows.pair_rows(t, r['files'], d['opts'])
            except rows.AdaptorError as ex:
                ctx.violation('correspondence', f'rows written do not pair with the recorded MetaRows: {ex}',
                              {'surface': 'file', 'design': d}, broken='pairing of MetaRows with output rows')
                t['pairs'] = []
                continue
            t['pairs'] = pairs
            name = f'cx_{di}_{ti}'
            exprs = []
            for k, (m, row, r1, r2) in enumerate(pairs):
                if not rows.row_is_dna(row, r1, r2):
                    ctx.violation('spec_violation', f"non-ACGT characters in output row {row.get('oligo_name')}", {'surface': 'file', 'design': d})
                    continue
                exprs.append(rows.row_expr(name, m, row, r1, r2))
                index.append((di, ti, k))
            groups.append((rows.coq_ctx(name, t, d['opts']), exprs))
    flat = []
    for g in groups:
        flat += g[1]
    bad, err = coq_eval_groups(IMPORTS, groups)
    ctx.corr['cases'] += len(flat)
    if err:
        ctx.violation('correspondence', 'model evaluation failed: ' + err[:400], broken=f'coqc cases ({what})', no_input=True)
    # map (group, expr) back to index
    offs, acc = [], 0
    for g in groups:
        offs.append(acc)
        acc += len(g[1])
    fails = []
    for gi, ei in bad:
        di, ti, k = index[offs[gi] + ei]
        d, r = results[di]
        m, row, r1, r2 = r['targetons'][ti]['pairs'][k]
        case = {'surface': 'file', 'design': d, 'targeton': r['targetons'][ti]['name'], 'metarow': m,
                'row': {x: row[x] for x in ('oligo_name', 'mut_position', 'ref', 'new', 'mutator', 'mave_nt', 'mave_nt_ref', 'mseq_no_adapt')},
                'vcf_ref': r1, 'vcf_pam': r2}
        case['_expr'] = (rows.coq_ctx('cx_fail', r['targetons'][ti], d['opts']), rows.row_expr('cx_fail', m, row, r1, r2).replace('row_check', 'row_diff', 1))
        fails.append(case)
    if fails and fields is not None:
        mask = sum(FIELD_BITS[f] for f in fields)
        keep = []
        for case in fails[:200]:
            defs, e = case.pop('_expr')
            codes = coq_eval_codes(IMPORTS, defs, [e])
            case['differing_fields'] = None if codes is None else [f for f, b in FIELD_BITS.items() if codes[0] & b]
            if codes is None or codes[0] & mask:
                keep.append(case)
        fails = keep
    for case in fails:
        case.pop('_expr', None)
    for case in fails[:40]:
        ctx.corr['disagreements'] += 1
        ctx.violation('correspondence', f"{what}: row {case['row']['oligo_name']} differs from the model", case,
                      broken=f'correspondence S-file {what}')
    return fails
