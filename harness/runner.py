"""Check runner: build the Coq development, run one property's exploration, write evidence,
print VIOLATION / KNOWN-FINDING lines.  See DESIGN.md sections 5-7."""
from __future__ import annotations

import concurrent.futures as cf
import fcntl
import glob
import importlib
import json
import multiprocessing as mp
import os
import random
import re
import shutil
import subprocess
import sys
import tempfile
import time

from . import common

COQ = common.COQ
BUILD_LOCK = os.path.join(common.VERIF, '.build.lock')
STD_AXIOMS = {
    'Coq.Logic.FunctionalExtensionality.functional_extensionality_dep',
    'Coq.Logic.Classical_Prop.classic', 'Coq.Logic.ProofIrrelevance.proof_irrelevance',
    'Coq.Logic.Eqdep.Eq_rect_eq.eq_rect_eq', 'Coq.Logic.JMeq.JMeq_eq',
    'functional_extensionality_dep', 'classic', 'proof_irrelevance', 'eq_rect_eq', 'JMeq_eq'}
FORBIDDEN = re.compile(r'\b(Admitted|admit|Axiom|Parameter|Conjecture|Unset Guard|bypass_check|Admit Obligations|type-in-type|impredicative-set)\b')


def sh(cmd, timeout=1200, cwd=None, env=None):
    p = subprocess.run(cmd, shell=isinstance(cmd, str), cwd=cwd, env=env, capture_output=True, text=True, timeout=timeout)
    return p.returncode, p.stdout, p.stderr


# ---------------------------------------------------------------- build

def coq_sources() -> list[str]:
    out = []
    for sub in ('Model', 'Spec', 'Proofs', 'Props', 'Generated'):
        out += sorted(glob.glob(os.path.join(COQ, sub, '*.v')))
    return out


def grep_forbidden() -> list[str]:
    hits = []
    for fp in coq_sources():
        with open(fp) as fh:
            text = re.sub(r'\(\*.*?\*\)', '', fh.read(), flags=re.S)
        for i, ln in enumerate(text.splitlines(), 1):
            if FORBIDDEN.search(ln):
                hits.append(f'{os.path.relpath(fp, COQ)}:{i}: {ln.strip()[:80]}')
    return hits


def build(verbose: bool = False) -> dict:
    """Regenerate facts from /repo, then a full .vo build (make -k). Returns status per file."""
    from . import gen_facts
    t0 = time.time()
    with open(BUILD_LOCK, 'w') as lock:
        fcntl.flock(lock, fcntl.LOCK_EX)
        facts = gen_facts.generate()
        rc, out, err = sh('coq_makefile -f _CoqProject -o Makefile', cwd=COQ)
        if rc != 0:
            return {'ok': False, 'log': out + err, 'facts': facts, 'failed': ['coq_makefile'], 'wall_s': time.time() - t0}
        rc, out, err = sh('timeout 1500 make -k -j16 2>&1', cwd=COQ, timeout=1600)
        log = out + err
    failed = re.findall(r'\*\*\* \[Makefile[^\]]*: ([\w/]+)\.vo\] Error', log)
    errors = re.findall(r'File "\./([^"]+)", line (\d+).*?\n(Error:.*?)(?:\n\n|\nmake)', log, flags=re.S)
    status = {}
    for fp in coq_sources():
        rel = os.path.relpath(fp, COQ)
        vo = fp[:-2] + '.vo'
        status[rel] = os.path.exists(vo) and os.path.getmtime(vo) >= os.path.getmtime(fp)
    if verbose:
        print(log[-3000:])
    return {'ok': rc == 0 and all(status.values()), 'status': status, 'failed': failed,
            'errors': [(f, int(l), e.strip()[:400]) for f, l, e in errors], 'facts': facts,
            'forbidden': grep_forbidden(), 'log': log[-6000:], 'wall_s': round(time.time() - t0, 1),
            'cmd': 'coq_makefile -f _CoqProject -o Makefile && make -k -j16 (full .vo build)'}


def theorems_of(prop: str) -> list[str]:
    fp = os.path.join(COQ, 'Props', f'{prop}.v')
    if not os.path.exists(fp):
        return []
    with open(fp) as fh:
        text = re.sub(r'\(\*.*?\*\)', '', fh.read(), flags=re.S)
    return re.findall(r'^\s*(?:Theorem|Corollary)\s+(\w+)', text, flags=re.M)


def print_assumptions(prop: str, thms: list[str]) -> dict[str, list[str] | None]:
    """{theorem: [] when closed | [axioms] | None when it could not be checked}."""
    if not thms:
        return {}
    tmp = tempfile.mkdtemp(prefix='vva_', dir=common.scratch_root())
    try:
        fp = os.path.join(tmp, 'Assum.v')
        with open(fp, 'w') as fh:
            fh.write(f'From VV Require Import Props.{prop}.\n')
            for t in thms:
                fh.write(f'Print Assumptions {t}.\n')
        rc, out, err = sh(['timeout', '300', 'coqc', '-Q', COQ, 'VV', fp], cwd=tmp, timeout=320)
        res: dict[str, list[str] | None] = {t: None for t in thms}
        if rc != 0:
            return res
        blocks = re.split(r'(?=Closed under the global context|Axioms:)', out)
        blocks = [b for b in blocks if b.strip()]
        for t, b in zip(thms, blocks):
            if b.startswith('Closed'):
                res[t] = []
            else:
                res[t] = re.findall(r'^(\S+)\s*:', b.replace('Axioms:', ''), flags=re.M)
        return res
    finally:
        shutil.rmtree(tmp, ignore_errors=True)


# ---------------------------------------------------------------- evaluating the model inside Coq

def coq_str(s: str) -> str:
    return '"' + s.replace('"', '""') + '"'


def coq_z(n: int) -> str:
    return f'({n})' if n < 0 else str(n)


def coq_dna(s: str) -> str:
    return f'(d {coq_str(s)})'


def coq_list(items) -> str:
    return '[' + '; '.join(items) + ']'


def coq_opt(x) -> str:
    return 'None' if x is None else f'(Some {x})'


def coq_bool(b: bool) -> str:
    return 'true' if b else 'false'


def _run_case_file(args):
    idx, header, defs, exprs, tmp = args
    fp = os.path.join(tmp, f'Cases{idx}.v')
    with open(fp, 'w') as fh:
        fh.write(header + '\nOpen Scope Z_scope.\nOpen Scope string_scope.\nSet Printing Width 1000000.\nSet Printing Depth 1000000.\n')
        fh.write(defs + '\n')
        fh.write('Definition cases : list bool := [\n' + ';\n'.join(exprs) + '].\n')
        fh.write('Eval vm_compute in (failing cases).\n')
    try:
        p = subprocess.run(['timeout', '900', 'coqc', '-Q', COQ, 'VV', fp], cwd=tmp, capture_output=True, text=True, timeout=950)
    except subprocess.TimeoutExpired:
        return idx, None, 'timeout'
    if p.returncode != 0:
        return idx, None, (p.stdout + p.stderr)[-1500:]
    m = re.search(r'=\s*(\[.*?\])\s*(?:%N)?\s*:\s*list N', p.stdout, flags=re.S)
    if not m:
        return idx, None, p.stdout[-500:]
    return idx, [int(x) for x in re.findall(r'\d+', m.group(1))], ''


def coq_eval(imports: list[str], exprs: list[str], defs: str = '', chunk: int = 300, workers: int = 14):
    """Evaluate boolean Coq expressions with vm_compute inside coqc.
    -> (list of indices evaluating to false, error text or '')."""
    if not exprs:
        return [], ''
    header = 'From VV Require Import ' + ' '.join(imports) + '.'
    tmp = tempfile.mkdtemp(prefix='vvc_', dir=common.scratch_root())
    try:
        jobs = [(i // chunk, header, defs, exprs[i:i + chunk], tmp) for i in range(0, len(exprs), chunk)]
        bad, errs = [], []
        with cf.ThreadPoolExecutor(max_workers=workers) as ex:
            for idx, fails, err in ex.map(_run_case_file, jobs):
                if fails is None:
                    errs.append(f'chunk {idx}: {err}')
                else:
                    bad += [idx * chunk + k for k in fails]
        return sorted(bad), '\n'.join(errs)
    finally:
        shutil.rmtree(tmp, ignore_errors=True)


# ---------------------------------------------------------------- parallel implementation runs

def _init_worker():
    common.use_repo()


def pool_map(fn, items, workers: int = 14, chunksize: int = 4):
    items = list(items)
    if len(items) <= 2:
        _init_worker()
        return [fn(x) for x in items]
    ctx = mp.get_context('fork')
    with ctx.Pool(workers, initializer=_init_worker) as pool:
        return pool.map(fn, items, chunksize=chunksize)


# ---------------------------------------------------------------- known findings

def load_known() -> list[dict]:
    fp = os.path.join(common.VERIF, 'known_findings.json')
    if not os.path.exists(fp):
        return []
    with open(fp) as fh:
        return json.load(fh).get('findings', [])


# ---------------------------------------------------------------- context

class Ctx:
    def __init__(self, prop: str, tier: str, seed: int, buildinfo: dict | None):
        self.prop, self.tier, self.seed = prop, tier, seed
        self.rng = random.Random(f'{prop}:{seed}')
        self.build = buildinfo or {}
        self.t = common.Timer()
        self.violations: list[dict] = []
        self.known_hits: dict[str, int] = {}
        self.evaluations = 0
        self.nontrivial: set = set()
        self.samples: list = []
        self.dist: dict = {}
        self.obligations: list[dict] = []
        self.corr = {'cases': 0, 'disagreements': 0}
        self.controls = {'run': 0, 'rejected': 0}
        self.notes: list[str] = []
        self.known = [k for k in load_known() if k.get('property') == prop and k.get('status') == 'open']
        self.matchers = {}

    def quick(self) -> bool:
        return self.tier == 'quick'

    def n(self, quick: int, thorough: int) -> int:
        return quick if self.tier == 'quick' else thorough

    def count(self, key: str, k: int = 1):
        self.dist[key] = self.dist.get(key, 0) + k

    def sample(self, x, cap: int = 6):
        if len(self.samples) < cap:
            self.samples.append(x)

    def nontriv(self, key):
        self.nontrivial.add(key if isinstance(key, (str, int, tuple)) else common.sha(key))

    # -- violations
    def match_known(self, case: dict) -> dict | None:
        for k in self.known:
            f = self.matchers.get(k.get('predicate'))
            try:
                if f is not None and f(case):
                    return k
            except Exception:
                continue
        return None

    def violation(self, kind: str, what: str, case: dict | None = None, broken: str | None = None,
                  no_input: bool = False):
        """kind: spec_violation | correspondence | proof_obligation | control."""
        case = case or {}
        if kind == 'spec_violation':
            k = self.match_known(case)
            if k is not None:
                self.known_hits[k['id']] = self.known_hits.get(k['id'], 0) + 1
                return
        key = (kind, what[:120])
        for v in self.violations:
            if v['_key'] == key:
                v['count'] += 1
                return
        self.violations.append({'_key': key, 'kind': kind, 'what': what, 'case': case, 'broken': broken,
                                'no_failing_input_found': no_input, 'count': 1})

    # -- obligations
    def check_obligations(self):
        thms = theorems_of(self.prop)
        st = self.build.get('status', {})
        rel = f'Props/{self.prop}.v'
        compiled = st.get(rel, False)
        assum = print_assumptions(self.prop, thms) if compiled else {t: None for t in thms}
        for t in thms:
            a = assum.get(t)
            ok = a is not None and all(x in STD_AXIOMS or x.split('.')[-1] in STD_AXIOMS for x in a)
            self.obligations.append({'theorem': t, 'discharged': bool(ok), 'axioms': a})
        if self.build.get('forbidden'):
            self.obligations.append({'theorem': 'no Admitted/Axiom/... in coq/', 'discharged': False,
                                     'axioms': self.build['forbidden'][:5]})
        if not thms:
            self.obligations.append({'theorem': f'{rel} has theorems', 'discharged': False, 'axioms': None})
        return [o for o in self.obligations if not o['discharged']]

    def broken_errors(self) -> str:
        errs = self.build.get('errors', [])
        return '; '.join(f'{f}:{l}: {e[:160]}' for f, l, e in errs[:3])


# ---------------------------------------------------------------- top level

def write_replay(prop: str, v: dict) -> str:
    d = os.path.join(common.VERIF, 'replays', prop)
    os.makedirs(d, exist_ok=True)
    body = {k: x for k, x in v.items() if not k.startswith('_')}
    body['property'] = prop
    fp = os.path.join(d, common.sha(body) + '.json')
    with open(fp, 'w') as fh:
        json.dump(body, fh, indent=1, default=str)
    return fp


def write_evidence(ctx: Ctx, level: str, extra: dict, violations: int):
    obl = ctx.obligations
    cov = {
        'obligations': max(1, len(obl)),
        'discharged': sum(1 for o in obl if o['discharged']),
        'checker_cmd': ctx.build.get('cmd', 'make') + '; coqc Print Assumptions per theorem; coqc cases (vm_compute) for the correspondence',
        'trusted_base': [
            'Coq 8.16.1 kernel and vm_compute (no native_compute)',
            'axioms per theorem as listed under obligations (Print Assumptions)',
            'hand-written Gallina model of the Python/SQL code (tied by the correspondence below)',
            'harness: generators, materialiser, output parsers, comparator (Python); fact extractors (gen_facts.py)',
            'pysam/csv/click/pydantic/sqlite3 run for real, not modelled'],
        'theorems': obl,
        'evaluations': ctx.evaluations,
        'distinct_nontrivial': len(ctx.nontrivial),
        'rule': extra.pop('rule', ''),
        'samples': ctx.samples or ['(none)'],
        'traces_validated_against_impl': ctx.corr['cases'],
        'disagreements_checked': ctx.corr['disagreements'],
        'distribution': ctx.dist,
        'negative_controls': ctx.controls,
        'known_findings_hit': ctx.known_hits,
        'notes': ctx.notes,
    }
    cov.update(extra)
    ev = {'property_id': ctx.prop, 'tier': ctx.tier, 'seed': ctx.seed, 'level': level, 'coverage': cov,
          'assumptions': extra.get('assumptions', []) or ['see coverage.trusted_base'],
          'wall_s': ctx.t.s(), 'violations': violations}
    os.makedirs(os.path.join(common.VERIF, 'evidence'), exist_ok=True)
    with open(os.path.join(common.VERIF, 'evidence', f'{ctx.prop}.json'), 'w') as fh:
        json.dump(ev, fh, indent=1, default=str)


def run_property(prop: str, tier: str, replay: str | None = None) -> int:
    common.use_repo()
    seed = common.seed()
    b = build()
    ctx = Ctx(prop, tier, seed, b)
    mod = importlib.import_module(f'harness.props.{prop.lower()}')
    if hasattr(mod, 'MATCHERS'):
        ctx.matchers = mod.MATCHERS
    if replay:
        return mod.replay(ctx, replay)
    undischarged = ctx.check_obligations()
    extra = {}
    try:
        extra = mod.run(ctx) or {}
    except Exception as ex:  # a harness failure is a broken check, reported as such
        import traceback
        ctx.violation('correspondence', f'harness error: {type(ex).__name__}: {ex}', {'traceback': traceback.format_exc()[-3000:]},
                      broken='harness', no_input=True)
    # known findings: pinned replays
    for k in ctx.known:
        still = True
        if hasattr(mod, 'replay_known'):
            try:
                still = mod.replay_known(ctx, k)
            except Exception as ex:
                still = True
                ctx.notes.append(f'known finding {k["id"]} replay error: {ex}')
        if still:
            print(f"KNOWN-FINDING: property={prop} {k['id']}: {k['what']}")
        else:
            ctx.notes.append(f'known finding {k["id"]} no longer reproduces')
    # broken obligations: the property is no longer shown to hold
    if undischarged:
        has_input = any(v['kind'] == 'spec_violation' for v in ctx.violations)
        if not has_input:
            names = ', '.join(o['theorem'] for o in undischarged[:6])
            ctx.violation('proof_obligation', f'theorem(s) no longer check: {names}; {ctx.broken_errors()}',
                          {'undischarged': undischarged, 'build_errors': ctx.build.get('errors', [])[:5]},
                          broken=names, no_input=True)
    # a correspondence failure without a spec failure: searched already by mod.run; mark no-input
    spec = [v for v in ctx.violations if v['kind'] == 'spec_violation']
    rc = 0
    out = []
    vs = spec or ctx.violations
    for v in vs[:5]:
        fp = write_replay(prop, v)
        tail = ' no-failing-input-found' if (v['kind'] != 'spec_violation') else ''
        out.append(f'VIOLATION property={prop} replay={fp}{tail}')
        rc = 1
    write_evidence(ctx, 'proof', extra, len(ctx.violations))
    for ln in out:
        print(ln)
    if rc == 0:
        print(f'OK property={prop} tier={tier} seed={seed} obligations={len(ctx.obligations)} '
              f'evaluations={ctx.evaluations} corr={ctx.corr} wall={ctx.t.s()}s')
    else:
        for v in vs[:5]:
            print('  ', v['kind'], '-', v['what'][:300])
    return rc


def coq_eval_groups(imports: list[str], groups: list[tuple[str, list[str]]], chunk: int = 300, workers: int = 14):
    """Like coq_eval, for expressions that share per-group definitions (e.g. one context per targeton).
    groups = [(defs, [exprs])]; -> (list of (group index, expr index) evaluating to false, error text)."""
    files, cur_defs, cur_exprs, cur_map = [], '', [], []
    for gi, (defs, exprs) in enumerate(groups):
        if cur_exprs and len(cur_exprs) + len(exprs) > chunk:
            files.append((cur_defs, cur_exprs, cur_map))
            cur_defs, cur_exprs, cur_map = '', [], []
        cur_defs += defs
        for ei, e in enumerate(exprs):
            cur_exprs.append(e)
            cur_map.append((gi, ei))
    if cur_exprs:
        files.append((cur_defs, cur_exprs, cur_map))
    if not files:
        return [], ''
    header = 'From VV Require Import ' + ' '.join(imports) + '.'
    tmp = tempfile.mkdtemp(prefix='vvc_', dir=common.scratch_root())
    try:
        jobs = [(i, header, f[0], f[1], tmp) for i, f in enumerate(files)]
        bad, errs = [], []
        with cf.ThreadPoolExecutor(max_workers=workers) as ex:
            for idx, fails, err in ex.map(_run_case_file, jobs):
                if fails is None:
                    errs.append(f'chunk {idx}: {err}')
                else:
                    bad += [files[idx][2][k] for k in fails]
        return bad, '\n'.join(errs)
    finally:
        shutil.rmtree(tmp, ignore_errors=True)


def coq_eval_codes(imports: list[str], defs: str, exprs: list[str]) -> list[int] | None:
    """Evaluate N-valued Coq expressions (a handful: used to attribute a disagreement to output fields)."""
    if not exprs:
        return []
    tmp = tempfile.mkdtemp(prefix='vvc_', dir=common.scratch_root())
    try:
        fp = os.path.join(tmp, 'Codes.v')
        with open(fp, 'w') as fh:
            fh.write('From VV Require Import ' + ' '.join(imports) + '.\nOpen Scope Z_scope.\nOpen Scope string_scope.\nSet Printing Width 1000000.\n')
            fh.write(defs + '\nDefinition codes : list N := [\n' + ';\n'.join(exprs) + '].\nEval vm_compute in codes.\n')
        p = subprocess.run(['timeout', '600', 'coqc', '-Q', COQ, 'VV', fp], cwd=tmp, capture_output=True, text=True)
        if p.returncode != 0:
            return None
        m = re.search(r'=\s*(\[.*?\])\s*(?:%N)?\s*:\s*list N', p.stdout, flags=re.S)
        return [int(x) for x in re.findall(r'\d+', m.group(1))] if m else None
    finally:
        shutil.rmtree(tmp, ignore_errors=True)
