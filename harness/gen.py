"""Random generation of structured, mostly-valid SGE and cDNA designs.

All choices derive from the `random.Random` passed in.  `focus` biases the distribution; the
defaults produce small designs (references of 150-360 bases, 1-3 targetons of 20-90 bases).
Validity rules implemented here are the ones DESIGN.md section 4 lists under wf_design.
"""
from __future__ import annotations

import csv
import os
import random

from . import common

NT = 'ACGT'
NON_CDS_MUT = ['snv', '1del', '2del0', '2del1', '3del0', '3del1', '3del2', '1del1', '4del0', '2del', '5del3']
CDS_MUT = ['inframe', 'ala', 'stop', 'aa', 'snvre']


def load_default_table() -> list[list[str]]:
    fp = os.path.join(common.SRC, 'valiant', 'data', 'default_codon_table.csv')
    with open(fp) as fh:
        return [r for r in csv.reader(fh)]


STD_CODE = {
    'TTT': 'F', 'TTC': 'F', 'TTA': 'L', 'TTG': 'L', 'CTT': 'L', 'CTC': 'L', 'CTA': 'L', 'CTG': 'L',
    'ATT': 'I', 'ATC': 'I', 'ATA': 'I', 'ATG': 'M', 'GTT': 'V', 'GTC': 'V', 'GTA': 'V', 'GTG': 'V',
    'TCT': 'S', 'TCC': 'S', 'TCA': 'S', 'TCG': 'S', 'CCT': 'P', 'CCC': 'P', 'CCA': 'P', 'CCG': 'P',
    'ACT': 'T', 'ACC': 'T', 'ACA': 'T', 'ACG': 'T', 'GCT': 'A', 'GCC': 'A', 'GCA': 'A', 'GCG': 'A',
    'TAT': 'Y', 'TAC': 'Y', 'TAA': 'STOP', 'TAG': 'STOP', 'CAT': 'H', 'CAC': 'H', 'CAA': 'Q', 'CAG': 'Q',
    'AAT': 'N', 'AAC': 'N', 'AAA': 'K', 'AAG': 'K', 'GAT': 'D', 'GAC': 'D', 'GAA': 'E', 'GAG': 'E',
    'TGT': 'C', 'TGC': 'C', 'TGA': 'STOP', 'TGG': 'W', 'CGT': 'R', 'CGC': 'R', 'CGA': 'R', 'CGG': 'R',
    'AGT': 'S', 'AGC': 'S', 'AGA': 'R', 'AGG': 'R', 'GGT': 'G', 'GGC': 'G', 'GGA': 'G', 'GGG': 'G'}


def rand_dna(rng: random.Random, n: int) -> str:
    return ''.join(rng.choice(NT) for _ in range(n))


def soft_mask(rng: random.Random, s: str, p: float) -> str:
    if rng.random() >= p:
        return s
    out = list(s)
    for _ in range(rng.randint(1, 3)):
        a = rng.randrange(len(s))
        b = min(len(s), a + rng.randint(1, 40))
        for i in range(a, b):
            out[i] = out[i].lower()
    return ''.join(out)


def compl_frame(f: int) -> int:
    return (3 - f) % 3


def next_frame(frame: int, length: int) -> int:
    return (3 - (length + compl_frame(frame)) % 3) % 3


def exons_of(d: dict) -> list[tuple[int, int, int]]:
    """Exons as the loader builds them: sorted by start, stop codon appended; (start, end, frame)."""
    g = d.get('gtf')
    if not g or not g['cds']:
        return []
    cds = sorted([list(x) for x in g['cds']], key=lambda x: x[0])
    if d['strand'] == '+':
        cds[-1][1] += 3
    else:
        cds[0][0] -= 3
    return [tuple(x) for x in cds]


def exon_at(exons, p):
    for e in exons:
        if e[0] <= p <= e[1]:
            return e
    return None


def region_class(exons, s: int, e: int) -> str:
    """'cds' if wholly inside one exon, 'nc' if it touches no exon, 'bad' otherwise."""
    es, ee = exon_at(exons, s), exon_at(exons, e)
    if es is None and ee is None:
        if any(s <= x[0] and x[1] <= e for x in exons):
            return 'badin'   # swallows a whole exon: the code sees no exon at its ends
        return 'nc'
    if es is not None and es == ee:
        return 'cds'
    return 'bad'


def cds_prefix_at(strand: str, exon, s: int, e: int) -> tuple[int, int]:
    """(prefix, suffix) lengths in genomic orientation of region [s,e] inside exon, as the code derives them."""
    d5 = (s - exon[0]) if strand == '+' else (exon[1] - e)
    pre = (compl_frame(exon[2]) + d5 % 3) % 3
    suf = (3 - ((e - s + 1) + pre) % 3) % 3
    return (pre, suf) if strand == '+' else (suf, pre)


def has_full_codon(strand: str, exon, s: int, e: int) -> bool:
    pre, suf = cds_prefix_at(strand, exon, s, e)
    a, b = compl_frame(pre), compl_frame(suf)
    return (e - b) - (s + a) + 1 >= 3


def gen_transcript(rng: random.Random, n: int, strand: str, focus: dict) -> dict | None:
    k = focus.get('n_exons', rng.choice([1, 2, 2, 3]))
    segs = []
    pos = rng.randint(12, 40)
    for i in range(k):
        ln = rng.choice(focus.get('exon_lens', [4, 5, 6, 7, 9, 12, 17, 21, 30, 31, 32, 45]))
        if pos + ln + 16 > n:
            break
        segs.append([pos, pos + ln - 1])
        pos += ln + rng.randint(8, 40)
    if not segs:
        return None
    # the coding sequence as a whole is a number of complete codons (the stop codon is appended by the loader)
    tot = sum(e - s + 1 for s, e in segs) + compl_frame(focus.get('first_frame', 0))
    segs[-1][1] += (3 - tot % 3) % 3
    order = segs if strand == '+' else list(reversed(segs))
    f = focus.get('first_frame', 0)
    cds = []
    for s, e in order:
        cds.append([s, e, f])
        f = next_frame(f, e - s + 1)
    cds.sort(key=lambda x: x[0])
    # room for the appended stop codon
    if strand == '+' and cds[-1][1] + 3 > n - 2:
        return None
    if strand == '-' and cds[0][0] - 3 < 3:
        return None
    g = {'gene_id': 'G1', 'transcript_id': 'T1', 'cds': cds, 'utr': []}
    if rng.random() < 0.3:
        g['utr'] = [[2, cds[0][0] - 1 - (3 if strand == '-' else 0)]]
    if rng.random() < focus.get('p_no_ids', 0.1):
        g['gene_id'] = None
        g['transcript_id'] = None
    return g


def pick_mutators(rng: random.Random, cls: str, strand: str, exon, s: int, e: int, focus: dict) -> list[str]:
    pool = list(focus.get('non_cds_mut', NON_CDS_MUT))
    if cls == 'cds':
        cm = list(focus.get('cds_mut', CDS_MUT))
        if not focus.get('allow_short_cds', True) and not has_full_codon(strand, exon, s, e):
            cm = []
        pool = pool + cm + cm
    if not pool:
        return []
    n = rng.choice([0, 1, 1, 2, 2, 3, 4])
    return sorted(set(rng.choice(pool) for _ in range(n)))


def gen_targeton(rng: random.Random, n: int, d: dict, focus: dict) -> dict | None:
    exons = exons_of(d)
    strand = d['strand']
    for _ in range(300):
        ln = rng.randint(focus.get('t_min', 20), focus.get('t_max', 90))
        if exons and rng.random() < 0.85:
            ex = rng.choice(exons)
            anchor = rng.randint(ex[0] - 10, ex[1] + 10)
            rs = max(2, anchor - rng.randint(0, ln))
        else:
            rs = rng.randint(2, max(2, n - ln - 2))
        re_ = rs + ln - 1
        if re_ > n - 1:
            continue
        # region 2
        mode = rng.random()
        if exons and mode < 0.6:
            cand = [x for x in exons if x[1] >= rs and x[0] <= re_]
            if not cand:
                continue
            ex = rng.choice(cand)
            lo, hi = max(rs, ex[0]), min(re_, ex[1])
            a = rng.choice([lo, lo, rng.randint(lo, hi)])
            b = rng.choice([hi, hi, rng.randint(a, hi)])
            if rng.random() < 0.5:
                b = min(b, a + rng.randint(0, 14))
        else:
            a = rng.randint(rs, re_)
            b = min(re_, a + rng.randint(0, 14))
        if b < a:
            continue
        e1 = rng.choice([0, 0, 1, 2, 3, 5]) if a - rs > 0 else 0
        e1 = min(e1, a - rs)
        e3 = rng.choice([0, 0, 1, 2, 3, 5]) if re_ - b > 0 else 0
        e3 = min(e3, re_ - b)
        regions = [(a - e1, a - 1) if e1 else None, (a, b), (b + 1, b + e3) if e3 else None]
        action = []
        ok = True
        for r in regions:
            if r is None:
                action.append(rng.choice(['', '', 'snv']))
                continue
            cls = region_class(exons, *r)
            if cls in ('bad', 'badin'):
                action.append('')
                if focus.get('require_mut_all'):
                    ok = False
                continue
            ex = exon_at(exons, r[0]) if cls == 'cds' else None
            action.append(', '.join(pick_mutators(rng, cls, strand, ex, r[0], r[1], focus)))
        if not ok:
            continue
        if not any(action[i] and regions[i] for i in range(3)):
            if rng.random() < 0.9:
                continue
        return {'ref_start': rs, 'ref_end': re_, 'r2_start': a, 'r2_end': b, 'ext': [e1, e3], 'action': action, 'sgrna': []}
    return None


def codon_key(strand: str, exons, p: int):
    ex = exon_at(exons, p)
    if ex is None:
        return None
    fcs = ex[0] - compl_frame(ex[2]) if strand == '+' else ex[1] + compl_frame(ex[2])
    return (ex[0], abs(p - fcs) // 3)


def true_codon_positions(d: dict, p: int):
    """Positions of the codon containing p, following the transcript across junctions (None if non-coding)."""
    exons = exons_of(d)
    if not exon_at(exons, p):
        return None
    strand = d['strand']
    order = exons if strand == '+' else list(reversed(exons))
    walk = []
    for ex in order:
        rng_ = range(ex[0], ex[1] + 1) if strand == '+' else range(ex[1], ex[0] - 1, -1)
        walk.append((ex, list(rng_)))
    # phase by exon from annotated frame
    for ex, ps in walk:
        if p in ps:
            i = ps.index(p)
            pre = compl_frame(ex[2])
            j = (i + pre) // 3
            lo, hi = j * 3 - pre, j * 3 - pre + 2
            idx = walk.index((ex, ps))
            out = []
            for q in range(lo, hi + 1):
                if q < 0:
                    if idx == 0:
                        return None
                    prev = walk[idx - 1][1]
                    out.append(prev[q] if -q <= len(prev) else None)
                elif q >= len(ps):
                    if idx == len(walk) - 1:
                        return None
                    nxt = walk[idx + 1][1]
                    out.append(nxt[q - len(ps)] if q - len(ps) < len(nxt) else None)
                else:
                    out.append(ps[q])
            return out
    return None


def gen_pam(rng: random.Random, d: dict, focus: dict) -> list[dict]:
    ref = d['ref'].upper()
    exons = exons_of(d)
    ids = ['sg1', 'sg2', 'sg3'][:rng.randint(1, 3)]
    edits, used_pos, used_codon = [], set(), set()
    for t in d['targetons']:
        for _ in range(rng.choice(focus.get('n_pam', [0, 1, 1, 2, 3]))):
            if rng.random() < focus.get('p_pam_edge', 0.0):
                p = rng.choice([t['ref_start'] + rng.randint(0, 3), t['ref_end'] - rng.randint(0, 3)])
            elif rng.random() < focus.get('p_pam_outside', 0.1):
                p = rng.choice([t['ref_start'] - rng.randint(1, 8), t['ref_end'] + rng.randint(1, 8)])
            elif rng.random() < 0.6:
                p = rng.randint(max(t['ref_start'], t['r2_start'] - 4), min(t['ref_end'], t['r2_end'] + 4))
            else:
                p = rng.randint(t['ref_start'], t['ref_end'])
            if p < 2 or p > len(ref) - 1 or p in used_pos:
                continue
            tc = true_codon_positions(d, p)
            ck = codon_key(d['strand'], exons, p)
            if exon_at(exons, p) is not None:
                if tc is None or None in tc:
                    continue
                key = tuple(sorted(tc))
                if key in used_codon:
                    continue
                if not focus.get('allow_junction_pam', True) and max(tc) - min(tc) != 2:
                    continue
                if not focus.get('allow_edge_pam', False):
                    # the codon of the edit must not hang over the targeton start/end when the edit is outside
                    pass
                used_codon.add(key)
            used_pos.add(p)
            alt = rng.choice([c for c in NT if c != ref[p - 1]])
            edits.append({'pos': p, 'ref': ref[p - 1], 'alt': alt, 'sgrna': rng.choice(ids)})
    for t in d['targetons']:
        k = rng.choice([0, 1, 1, 2, len(ids)])
        t['sgrna'] = sorted(rng.sample(ids, min(k, len(ids))))
    rng.shuffle(edits)
    return edits


def gen_custom_record(rng: random.Random, ref: str, lo: int, hi: int, focus: dict) -> dict | None:
    kinds = focus.get('custom_kinds', ['snv', 'snv', 'mnv', 'ins', 'ins', 'del', 'del', 'delins_u', 'mono', 'multi'])
    kind = rng.choice(kinds)
    p = rng.randint(max(2, lo), hi)
    U = ref.upper()

    def other(c):
        return rng.choice([x for x in NT if x != c])

    if kind == 'snv':
        r, alts = U[p - 1], [other(U[p - 1])]
    elif kind == 'mnv':
        ln = rng.randint(2, 4)
        r = U[p - 1:p - 1 + ln]
        if len(r) < ln:
            return None
        a = ''.join(other(c) if i == 0 or rng.random() < 0.6 else c for i, c in enumerate(r))
        alts = [a]
    elif kind == 'ins':
        r = U[p - 1]
        alts = [r + rand_dna(rng, rng.randint(1, 4))]
    elif kind == 'del':
        ln = rng.randint(2, 6)
        r = U[p - 1:p - 1 + ln]
        if len(r) < ln:
            return None
        alts = [r[0]]
    elif kind == 'delins_u':   # unanchored deletion-insertion: first bases differ
        ln = rng.randint(1, 4)
        r = U[p - 1:p - 1 + ln]
        if len(r) < ln:
            return None
        la = rng.choice([x for x in range(1, 6) if x != ln])
        alts = [other(r[0]) + rand_dna(rng, la - 1)]
    elif kind == 'delins_a':   # anchored deletion-insertion (shares first base, both sides longer than the anchor)
        ln = rng.randint(2, 4)
        r = U[p - 1:p - 1 + ln]
        if len(r) < ln:
            return None
        la = rng.choice([x for x in range(2, 6) if x != ln])
        alts = [r[0] + rand_dna(rng, la - 1)]
    elif kind == 'padded':     # non-minimal padding: insertion/deletion with extra shared leading bases
        ln = rng.randint(2, 3)
        r = U[p - 1:p - 1 + ln]
        if len(r) < ln:
            return None
        alts = [r + rand_dna(rng, rng.randint(1, 3))] if rng.random() < 0.5 else [r[:1]] if False else [r[:ln - 1] if ln > 2 else r[0]]
        if alts[0] == r:
            return None
    elif kind == 'mono':
        r, alts = U[p - 1], None
    elif kind == 'multi':
        r = U[p - 1]
        a1 = other(r)
        alts = [a1, rng.choice([x for x in NT if x not in (r, a1)])]
    else:
        return None
    if rng.random() < focus.get('p_lower', 0.15):
        r = r.lower()
        if alts:
            alts = [a.lower() for a in alts]
    return {'pos': p, 'ref': r, 'alts': alts, 'kind': kind}


def gen_custom(rng: random.Random, d: dict, focus: dict) -> list[dict]:
    vcfs = []
    n = rng.choice([1, 1, 2, 3])
    ref = d['ref']
    for i in range(n):
        tag = rng.choice([None, None, 'ALLELEID'])
        id_type = rng.choice(['String', 'Integer']) if tag and focus.get('int_id_tags') else 'String'
        recs = []
        for t in d['targetons']:
            for _ in range(rng.choice(focus.get('n_custom', [0, 1, 2, 3, 5]))):
                lo, hi = t['ref_start'] - 4, t['ref_end'] + 3
                r = gen_custom_record(rng, ref, lo, min(hi, len(ref) - 8), focus)
                if r is None:
                    continue
                r['id'] = f'v{i}_{len(recs)}' if rng.random() < 0.8 else None
                if tag:
                    # identifiers from an INFO tag: text, or a number (an Integer tag, as ClinVar's ALLELEID - 0 is an identifier like any other)
                    r['info'] = {tag: str(rng.choice([0, 0, 7, 1000 + len(recs)]) if id_type == 'Integer' else 1000 + len(recs))}
                recs.append(r)
        if rng.random() < 0.2 and d.get('extra_contigs'):
            c2 = next(iter(d['extra_contigs']))
            recs.append({'pos': 5, 'ref': d['extra_contigs'][c2][4].upper(), 'alts': ['A' if d['extra_contigs'][c2][4].upper() != 'A' else 'C'],
                         'contig': c2, 'id': 'other', 'info': ({tag: '9'} if tag else {}), 'kind': 'snv'})
        recs.sort(key=lambda r: (r.get('contig', d['contig']) != d['contig'], r['pos']))
        vcfs.append({'alias': f'al{i}', 'id_tag': tag, 'records': recs, **({'id_type': id_type} if tag and id_type != 'String' else {})})
    return vcfs


def is_syn_bg_snv(d: dict, p: int, alt: str) -> bool:
    tc = true_codon_positions(d, p)
    if tc is None or None in tc:
        return False
    U = d['ref'].upper()
    c = ''.join(U[q - 1] for q in tc)
    c2 = ''.join(alt if q == p else U[q - 1] for q in tc)
    if d['strand'] == '-':
        # positions are listed in transcript order on the minus strand: complement each base
        comp = common.COMP
        c = ''.join(comp[x] for x in c)
        c2 = ''.join(comp[x] for x in c2)
    return STD_CODE[c] == STD_CODE[c2]


def gen_bg(rng: random.Random, d: dict, focus: dict) -> list[dict]:
    U = d['ref'].upper()
    exons = exons_of(d)
    n = len(U)
    recs, taken = [], set()
    kinds = focus.get('bg_kinds', ['snv', 'snv', 'ins', 'del', 'mnv'])
    lo = min(t['ref_start'] for t in d['targetons']) - 25
    hi = max(t['ref_end'] for t in d['targetons']) + 25
    if exons:
        lo, hi = min(lo, exons[0][0] - 10), max(hi, exons[-1][1] + 10)
    lo, hi = max(3, lo), min(n - 8, hi)
    pam_pos = {p['pos'] for p in (d.get('pam') or [])}
    custom_span = set()
    for v in d.get('vcfs') or []:
        for rec in v['records']:
            custom_span |= set(range(rec['pos'], rec['pos'] + len(rec['ref'])))
    plan = [(rng.choice(kinds), rng.randint(lo, hi)) for _ in range(rng.choice(focus.get('n_bg', [1, 1, 2, 3, 4])))]
    if focus.get('bg_on_custom') and rng.random() < focus['bg_on_custom']:
        # a coordinate-shifting variant touching a custom record (its start, its end, the base after it): tried at several spots
        crecs = [rec for v in (d.get('vcfs') or []) for rec in v['records'] if rec.get('contig', d['contig']) == d['contig'] and rec.get('alts')]
        rng.shuffle(crecs)
        for rec in crecs[:3]:
            s_, e_ = rec['pos'], rec['pos'] + len(rec['ref']) - 1
            for _k in range(3):
                plan.insert(0, ('del', rng.randint(max(lo, s_ - 3), max(lo, e_))) if rng.random() < 0.6 else ('ins', rng.randint(max(lo, s_ - 1), max(lo, e_))))
    if focus.get('bg_upstream'):
        # a coordinate-shifting variant upstream of (or inside, before region 2 of) a targeton: tried at several spots
        for t in d['targetons']:
            for _k in range(6):
                plan.insert(0, (rng.choice(['ins', 'del']), rng.randint(max(lo, t['ref_start'] - 20), max(lo, t['r2_start'] - 2))))
    for kind, p in plan:
        if len(recs) >= focus.get('max_bg', 5):
            break
        if kind == 'snv':
            span = [p]
            alt = rng.choice([c for c in NT if c != U[p - 1]])
            if exon_at(exons, p):
                if focus.get('bg_coding', 'syn') == 'syn' and not is_syn_bg_snv(d, p, alt):
                    cands = [a for a in NT if a != U[p - 1] and is_syn_bg_snv(d, p, a)]
                    if not cands:
                        continue
                    alt = rng.choice(cands)
            rec = {'pos': p, 'ref': U[p - 1], 'alts': [alt]}
        elif kind == 'mnv':
            span = [p, p + 1]
            if any(exon_at(exons, q) for q in span) and not focus.get('bg_mnv_coding'):
                continue
            rec = {'pos': p, 'ref': U[p - 1:p + 1], 'alts': [''.join(rng.choice([c for c in NT if c != x]) for x in U[p - 1:p + 1])]}
        elif kind == 'ins':
            span = [p, p + 1]
            if any(exon_at(exons, q) for q in span):
                continue
            rec = {'pos': p, 'ref': U[p - 1], 'alts': [U[p - 1] + rand_dna(rng, rng.randint(1, 4))]}
        else:
            ln = rng.randint(1, 4)
            span = list(range(p, p + ln + 1))
            if any(exon_at(exons, q) for q in span):
                continue
            rec = {'pos': p, 'ref': U[p - 1:p + ln], 'alts': [U[p - 1]]}
        # keep variants (with one base of margin) disjoint, and away from PAM edits
        wide = set(range(span[0] - 1, span[-1] + 2))
        if wide & taken or wide & pam_pos:
            continue
        if kind in ('snv', 'mnv') and set(span) & custom_span:
            continue      # a background substitution under a custom record changes its REF: outside the quantifier
        before = set(taken)
        taken |= wide
        rec['id'] = f'bg{len(recs)}'
        rec['kind'] = kind
        recs.append(rec)
        if kind in ('ins', 'del') and rng.random() < focus.get('bg_adjacent', 0.0) and len(recs) < focus.get('max_bg', 5):
            # a substitution of the very next base after the indel (two separate, compatible records at adjacent positions)
            q = span[-1] if kind == 'ins' else span[-1] + 1
            if q <= n - 2 and not exon_at(exons, q) and q not in pam_pos and q not in custom_span and not {q, q + 1} & before:
                recs.append({'pos': q, 'ref': U[q - 1], 'alts': [rng.choice([c for c in NT if c != U[q - 1]])], 'id': f'bg{len(recs)}', 'kind': 'snv'})
                taken |= {q, q + 1}
    recs.sort(key=lambda r: r['pos'])
    return recs


def gen_codon_table(rng: random.Random) -> list[list[str]]:
    rows = load_default_table()
    by_aa: dict[str, list[list[str]]] = {}
    for r in rows:
        by_aa.setdefault(r[1], []).append(list(r))
    out = []
    for aa, rs in by_aa.items():
        ranks = list(range(1, len(rs) + 1))
        rng.shuffle(ranks)
        for r, k in zip(rs, ranks):
            out.append([r[0], r[1], r[2], 'RANK' + (rng.choice(['T', 'U', 'UT', '1']) if k == 1 else str(k))])
    rng.shuffle(out)
    return out


def gen_opts(rng: random.Random, focus: dict) -> dict:
    o = {}
    if rng.random() < 0.6:
        o['adaptor5'] = rand_dna(rng, rng.randint(0, 6)) or None
        o['adaptor3'] = rand_dna(rng, rng.randint(0, 6)) or None
    o['revcomp'] = rng.random() < focus.get('p_revcomp', 0.5)
    o['no_op'] = rng.random() < focus.get('p_no_op', 0.4)
    return o


def gen_sge(rng: random.Random, focus: dict | None = None) -> dict:
    focus = focus or {}
    for _ in range(100):
        n = rng.randint(focus.get('n_min', 150), focus.get('n_max', 360))
        strand = focus.get('strand') or rng.choice('+-')
        d = {'mode': 'sge', 'contig': 'chr1', 'strand': strand, 'species': 'sp', 'assembly': 'asm',
             'ref': soft_mask(rng, rand_dna(rng, n), focus.get('p_softmask', 0.3)),
             'extra_contigs': {'chr2': rand_dna(rng, 40)} if rng.random() < 0.3 else {}}
        if rng.random() < focus.get('p_gtf', 0.85):
            g = gen_transcript(rng, n, strand, focus)
            if g is None:
                continue
            d['gtf'] = g
        ts = []
        for _i in range(focus.get('n_targetons') or rng.choice([1, 1, 2, 3])):
            t = gen_targeton(rng, n, d, focus)
            if t is None:
                break
            if any((x['ref_start'], x['ref_end']) == (t['ref_start'], t['ref_end']) for x in ts):
                continue
            ts.append(t)
        if not ts:
            continue
        d['targetons'] = ts
        if rng.random() < focus.get('p_pam', 0.6):
            d['pam'] = gen_pam(rng, d, focus)
        if rng.random() < focus.get('p_custom', 0.5):
            d['vcfs'] = gen_custom(rng, d, focus)
        if rng.random() < focus.get('p_bg', 0.0):
            d['bg'] = gen_bg(rng, d, focus)
            if d['bg'] and rng.random() < focus.get('p_mask', 0.25):
                v = rng.choice(d['bg'])
                off = rng.randint(0, 1)
                if v['pos'] % 3 == 0:
                    off = -1        # the interval starts on the base after the variant (BED starts are 0-based): the variant is not masked
                d['mask'] = [['chr1', v['pos'] - 1 + (1 if len(v['ref']) != len(v['alts'][0]) else 0) - off, v['pos'] + 2]]
        if rng.random() < focus.get('p_table', 0.15):
            d['codon_table'] = gen_codon_table(rng)
        d['opts'] = gen_opts(rng, focus)
        return d
    raise RuntimeError('could not generate a design')


def gen_cdna(rng: random.Random, focus: dict | None = None) -> dict:
    focus = focus or {}
    n_seq = rng.choice([1, 2])
    seqs, annot = {}, []
    for i in range(n_seq):
        n = rng.randint(60, 200)
        sid = f'cdna{i}'
        seqs[sid] = rand_dna(rng, n)
        if rng.random() < 0.8:
            cs = rng.randint(1, 20)
            ce = cs + 3 * rng.randint(4, (n - cs) // 3 - 1) - 1
            annot.append([sid, rng.choice(['G1', '']), rng.choice(['T1', '']), cs, ce])
        elif rng.random() < 0.5:
            annot.append([sid, 'G1', 'T1', '', ''])
    ts = []
    for _ in range(rng.choice([1, 2, 3])):
        sid = rng.choice(list(seqs))
        n = len(seqs[sid])
        a = next((x for x in annot if x[0] == sid and x[3] != ''), None)
        for _try in range(100):
            rs = rng.randint(1, n - 10)
            re_ = min(n, rs + rng.randint(8, 60))
            r2s = rng.randint(max(rs, 2), re_)   # a deletion of the very first base has no anchor base (known finding C19-first-base-indel)
            r2e = min(re_, r2s + rng.randint(0, 20))
            if a:
                cs, ce = a[3], a[4]
                inside = cs <= r2s and r2e <= ce
                outside = r2e < cs or r2s > ce
                if not (inside or outside):
                    continue
                pool = NON_CDS_MUT + (CDS_MUT * 2 if inside else [])
            else:
                pool = NON_CDS_MUT
            k = rng.choice([1, 2, 3])
            muts = sorted(set(rng.choice(pool) for _ in range(k)))
            ts.append({'seq_id': sid, 'ref_start': rs, 'ref_end': re_, 'r2_start': r2s, 'r2_end': r2e, 'action': muts})
            break
    o = gen_opts(rng, focus)
    o.pop('revcomp', None)
    o.pop('no_op', None)
    d = {'mode': 'cdna', 'seqs': seqs, 'targetons': ts, 'opts': o, 'species': 'sp', 'assembly': 'asm'}
    if annot:
        d['annot'] = annot
    if rng.random() < focus.get('p_table', 0.15):
        d['codon_table'] = gen_codon_table(rng)
    return d
