"""Independent codon oracle for C03, C04 (and C14, C15): the reading frame is derived from the annotation
(GTF frame = number of bases, in transcript direction, before the first complete codon of the exon) by walking the
coding sequence in transcript order - not from the prefix/suffix algebra of exon.py / transcript.py / cds_seq.py."""
from __future__ import annotations

from . import common, gen

NT = 'ACGT'


class Table:
    """Codon table in transcript orientation; ranks distinct inside an amino acid (ties are outside C17's theorem)."""

    def __init__(self, rows=None):
        rows = rows if rows is not None else gen.load_default_table()
        self.tr, by = {}, {}
        for r in rows:
            c, a, k = r[0], r[1], r[3]
            k = 1 if k[4:] in ('U', 'T', 'UT') else int(k[4:])
            self.tr[c] = a
            by.setdefault(a, []).append((k, c))
        self.ranked = {a: [c for _, c in sorted(v)] for a, v in by.items()}
        self.aas = list(self.ranked)

    def top(self, a):
        return self.ranked[a][0]

    def second(self, a):
        return self.ranked[a][1] if len(self.ranked[a]) > 1 else None


def mut_type(ref_aa: str, alt_aa: str) -> str:
    return 'non' if alt_aa == 'STOP' else 'syn' if alt_aa == ref_aa else 'mis'


class Frame:
    """The reading frame of a transcript: exons = [(start, end, frame)] sorted by start (stop codon included)."""

    def __init__(self, exons, strand: str):
        self.exons, self.strand = list(exons), strand
        order = self.exons if strand == '+' else list(reversed(self.exons))
        self.walk = []          # CDS positions in transcript order
        self.phase = {}         # position -> 0, 1, 2 (0 = first base of its codon)
        self.idx = {}
        for s, e, f in order:
            ps = list(range(s, e + 1)) if strand == '+' else list(range(e, s - 1, -1))
            for i, p in enumerate(ps):
                self.idx[p] = len(self.walk)
                self.phase[p] = (i - f) % 3
                self.walk.append(p)

    def codon_positions(self, p: int):
        """The three positions (transcript order) of the codon holding p; None if p is non-coding or the codon
        is cut by the transcript start/end."""
        if p not in self.idx:
            return None
        i = self.idx[p] - self.phase[p]
        if i < 0 or i + 3 > len(self.walk):
            return None
        return self.walk[i:i + 3]

    def region_codons(self, lo: int, hi: int) -> list[int]:
        """Low genomic ends q of the in-frame codons whose three bases [q, q+2] lie inside [lo, hi] (one exon)."""
        out = []
        for q in range(lo, hi - 1):
            five = q if self.strand == '+' else q + 2
            if five in self.phase and self.phase[five] == 0:
                cp = self.codon_positions(five)
                if cp is not None and sorted(cp) == [q, q + 1, q + 2]:
                    out.append(q)
        return out

    def orient(self, s: str) -> str:
        return s if self.strand == '+' else common.revcomp(s)


def region_expected(fr: Frame, tb: Table, G, lo: int, hi: int, muts: set[str]) -> dict[str, set]:
    """{label: {(pos, ref, new)}} for the codon-level mutators requested on the coding region [lo, hi];
    G(p) = template base at genomic p."""
    exp = {m: set() for m in muts if m in ('inframe', 'ala', 'stop', 'aa', 'snvre')}
    for q in fr.region_codons(lo, hi):
        g = ''.join(G(p) for p in (q, q + 1, q + 2))
        ct = fr.orient(g)
        if 'inframe' in exp:
            exp['inframe'].add((q, g, ''))
        for lab, a in (('ala', 'A'), ('stop', 'STOP')):
            if lab in exp and tb.top(a) != ct:
                exp[lab].add((q, g, fr.orient(tb.top(a))))
        if 'aa' in exp:
            for a in tb.aas:
                if a != 'STOP' and a != tb.tr[ct]:
                    exp['aa'].add((q, g, fr.orient(tb.top(a))))
        if 'snvre' in exp:
            for i in range(3):
                for y in NT:
                    if y == ct[i]:
                        continue
                    c2 = ct[:i] + y + ct[i + 1:]
                    a1, a2 = tb.tr[ct], tb.tr[c2]
                    if mut_type(a1, a2) == 'syn':
                        alts = [x for x in tb.ranked[a2] if x != c2]
                    else:
                        t = tb.top(a2)
                        alts = [t] if t != c2 else ([tb.second(a2)] if tb.second(a2) else [])
                    for x in alts:
                        if x != ct and x != c2:
                            exp['snvre'].add((q, g, fr.orient(x)))
    return exp


def annotate_expected(fr: Frame, tb: Table, G, pos: int, ref: str, new: str):
    """(ref_aa, alt_aa, mut_type) of an snv / codon replacement row in a coding region, or None when the codon
    is cut by the transcript end (outside the quantifier)."""
    if len(ref) == 1:
        cp = fr.codon_positions(pos)
        if cp is None:
            return None
        comp = (lambda x: x) if fr.strand == '+' else (lambda x: common.COMP[x])
        ct = ''.join(comp(G(p)) for p in cp)
        c2 = ''.join(comp(new) if p == pos else comp(G(p)) for p in cp)
    else:
        ct, c2 = fr.orient(ref), fr.orient(new)
    a1, a2 = tb.tr[ct], tb.tr[c2]
    return a1, a2, mut_type(a1, a2)


def genome_fn(d: dict, t: dict, pam_seq: str | None):
    """Template base by genomic position for targeton t of SGE design d: the reference (upper-cased, unmasked
    background substitutions applied; coordinate-shifting backgrounds are not used with this oracle) with the
    targeton span overwritten by the reported pam_seq (which carries the applied PAM edits)."""
    from . import bg
    U = list(d['ref'].upper())
    for p, r, a in bg.unmasked_variants(d):
        assert len(r) == len(a), 'codon oracle used with a coordinate-shifting background variant'
        U[p - 1:p - 1 + len(r)] = list(a)
    if pam_seq:
        U[t['ref_start'] - 1:t['ref_end']] = list(pam_seq)
    return lambda p: U[p - 1]
