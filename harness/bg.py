"""Background variants: the specification side (C06).  Normalised variants, masks, the cell map of the whole
contig, and the construction of the 'pre-edited genome' design D' from a design D with background variants."""
from __future__ import annotations

import copy

from . import gen


def reported(pos: int, ref: str, alt: str):
    if pos > 1 and len(ref) == 1 and len(alt) > 1 and alt[0] == ref:
        return pos + 1, '', alt[1:]
    if pos > 1 and len(alt) == 1 and len(ref) > 1 and ref[0] == alt:
        return pos + 1, ref[1:], ''
    return pos, ref, alt


def unmasked_variants(d: dict):
    """Background variants as the tool sees them: normalised, on the contig, not masked; sorted by position."""
    out = []
    mask = [(int(r[1]) + 1, int(r[2])) for r in (d.get('mask') or []) if r[0] == d['contig']]
    for rec in d.get('bg') or []:
        if rec.get('contig', d['contig']) != d['contig'] or not rec.get('alts'):
            continue
        p, r, a = reported(rec['pos'], rec['ref'].upper(), rec['alts'][0].upper())
        if any(s <= p <= e for s, e in mask):
            continue
        out.append((p, r, a))
    out.sort()
    return out


class Lift:
    """Cell map of a contig of length n under sorted, non-overlapping variants (pos, ref, alt)."""

    def __init__(self, ref: str, vs):
        self.ref, self.vs = ref, vs
        cells, out, p = [], [], 1
        n = len(ref)
        for pos, r, a in vs:
            while p < pos:
                cells.append(p)
                out.append(ref[p - 1])
                p += 1
            if len(r) == len(a):
                for k in range(len(r)):
                    cells.append(p)
                    out.append(a[k])
                    p += 1
            elif not r:
                cells += [None] * len(a)
                out += list(a)
            elif not a:
                p += len(r)
            else:       # deletion-insertion: not a supported background variant (treated as a block without mapping)
                cells += [None] * len(a)
                out += list(a)
                p += len(r)
        while p <= n:
            cells.append(p)
            out.append(ref[p - 1])
            p += 1
        self.cells = cells                       # ALT position q (1-based) -> REF position or None
        self.alt = ''.join(out)
        self.img = {p: i + 1 for i, p in enumerate(cells) if p is not None}
        self.ins_points = {pos for pos, r, a in vs if not r}
        self.deleted = {p for pos, r, a in vs if not a for p in range(pos, pos + len(r))}
        self.shifting = [v for v in vs if len(v[1]) != len(v[2])]
        self.unrepresentable = set()     # custom records of D that cannot be written for D' (filled by lift_design)

    def r2a(self, p):
        return self.img.get(p)

    def a2r(self, q):
        return self.cells[q - 1] if 1 <= q <= len(self.cells) else None

    def ref_touches(self, pos: int, ref_len: int) -> bool:
        """A REF-coordinate variant touches a coordinate shift (C05 spec)."""
        return any(p in self.deleted or p in self.ins_points for p in range(pos, pos + max(1, ref_len)))

    def alt_touches(self, q: int, ref_len: int) -> bool:
        """An ALT-coordinate variant touches a coordinate shift."""
        sub = self.cells[q - 1:q - 1 + max(1, ref_len)]
        if any(c is None for c in sub):
            return True
        if any(sub[k + 1] != sub[k] + 1 for k in range(len(sub) - 1)):
            return True
        return any(c in self.ins_points or c in self.deleted for c in sub)


def lift_design(d: dict):
    """-> (D', lift) : the design on the genome that already carries the background variants, or None when some
    coordinate of D does not survive (outside what the tool supports)."""
    vs = unmasked_variants(d)
    L = Lift(d['ref'].upper(), vs)
    d2 = copy.deepcopy(d)
    d2.pop('bg', None)
    d2.pop('mask', None)
    d2['ref'] = L.alt
    for t in d2['targetons']:
        for k in ('ref_start', 'ref_end', 'r2_start', 'r2_end'):
            q = L.r2a(t[k])
            if q is None:
                return None
            t[k] = q
        # extension lengths are region lengths in the lifted coordinate system as the tool keeps them (unchanged)
    if d2.get('gtf'):
        for c in d2['gtf']['cds']:
            a, b = L.r2a(c[0]), L.r2a(c[1])
            if a is None or b is None:
                return None
            c[0], c[1] = a, b
        for u in d2['gtf'].get('utr', []):
            a, b = L.r2a(u[0]), L.r2a(u[1])
            if a is None or b is None:
                d2['gtf']['utr'] = []
                break
            u[0], u[1] = a, b
    if d2.get('pam'):
        keep = []
        for p in d2['pam']:
            q = L.r2a(p['pos'])
            if q is None:
                return None
            keep.append(dict(p, pos=q))
        d2['pam'] = keep
    if d2.get('vcfs'):
        for v in d2['vcfs']:
            keep = []
            for rec in v['records']:
                if rec.get('contig', d['contig']) != d['contig'] or not rec.get('alts'):
                    keep.append(rec)
                    continue
                p, r, a = reported(rec['pos'], rec['ref'].upper(), rec['alts'][0].upper())
                span = range(rec['pos'], rec['pos'] + len(rec['ref']))
                if L.ref_touches(p, len(r)) or any(L.r2a(x) is None for x in span) or \
                        any(L.r2a(x + 1) != L.r2a(x) + 1 for x in list(span)[:-1]):
                    rec2 = None     # dropped by D; cannot be represented in D'
                else:
                    rec2 = dict(rec, pos=L.r2a(rec['pos']))
                    if L.alt[rec2['pos'] - 1:rec2['pos'] - 1 + len(rec['ref'])] != rec['ref'].upper():
                        rec2 = None     # a background SNV changed the REF bases of the record: outside the quantifier
                if rec2 is not None:
                    keep.append(rec2)
                else:
                    L.unrepresentable.add((v['alias'], p, r, a))
            v['records'] = keep
    return d2, L
