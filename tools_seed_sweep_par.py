#!/usr/bin/env python3
"""The seed sweep in parallel: K copies of /verif (without .git) and K scratch worktrees of /repo under /tmp/par, each worker applies its
share of the seeded changes to its own worktree and runs the deciding check of its own copy against it (VERIF_REPO); /repo itself is never
touched.  Verdicts go to seeded/<id>/meta.json unless --no-record.  usage: tools_seed_sweep_par.py [-jK] [--no-record] [ids or property ids ...]"""
import json, os, shutil, subprocess, sys, time
from concurrent.futures import ThreadPoolExecutor
V, P = '/verif', '/tmp/par'
args = [a for a in sys.argv[1:] if not a.startswith('-')]
K = next((int(a[2:]) for a in sys.argv[1:] if a.startswith('-j')), 4)
tier = 'thorough' if '--thorough' in sys.argv else 'quick'
seeds = sorted(os.listdir(f'{V}/seeded'))
if args:
    seeds = [s for s in seeds if s in args or s[:3] in args]
claimed = {c['property_id'] for c in json.load(open(f'{V}/MANIFEST.json'))['checks']}
shutil.rmtree(P, ignore_errors=True)
os.makedirs(P)
subprocess.run('git -C /repo worktree prune', shell=True)
for k in range(K):
    subprocess.run(f"rsync -a --exclude .git --exclude replays --exclude '.scratch*' {V}/ {P}/v{k}/", shell=True, check=True)
    subprocess.run(f'git -C /repo worktree add --detach {P}/r{k} HEAD', shell=True, check=True, capture_output=True)


def work(k):
    out = []
    env = dict(os.environ, VERIF_REPO=f'{P}/r{k}')
    for s in seeds[k::K]:
        meta = json.load(open(f'{V}/seeded/{s}/meta.json'))
        prop = meta.get('decided_by_property', s[:3])
        if prop not in claimed:
            out.append((s, None, 'property not claimed')); continue
        t0 = time.time()
        a = subprocess.run(['git', '-C', f'{P}/r{k}', 'apply', f'{V}/seeded/{s}/patch.diff'], capture_output=True, text=True)
        if a.returncode != 0:
            out.append((s, None, 'PATCH DOES NOT APPLY ' + a.stderr[:200])); continue
        try:
            p = subprocess.run([f'{P}/v{k}/check', prop, '--tier', tier], capture_output=True, text=True, timeout=3600, env=env)
        finally:
            subprocess.run(f'git -C {P}/r{k} checkout -- . && git -C {P}/r{k} clean -fdq', shell=True)
        lines = [l for l in p.stdout.splitlines() if l.startswith('VIOLATION')]
        detail = [l.strip() for l in p.stdout.splitlines() if l.startswith('   ')][:2]
        caught = ({'check': f'./check {prop} --tier {tier}', 'exit': p.returncode, 'line': lines[0].replace(f'{P}/v{k}', V) if lines else None,
                   'what': detail, 'wall_s': round(time.time() - t0, 1)} if p.returncode == 1 and lines else None)
        missed = None if caught else {'check': f'./check {prop} --tier {tier}', 'exit': p.returncode, 'tail': p.stdout[-300:]}
        print(s, 'CAUGHT ' + (detail[0][:140] if detail else lines[0][:140]) if caught else f'MISSED (exit {p.returncode})', f'{time.time() - t0:.0f}s', flush=True)
        out.append((s, caught, missed))
    return out


try:
    with ThreadPoolExecutor(K) as ex:
        results = [r for part in ex.map(work, range(K)) for r in part]
finally:
    for k in range(K):
        subprocess.run(f'git -C /repo worktree remove --force {P}/r{k}', shell=True, capture_output=True)
    shutil.rmtree(P, ignore_errors=True)
    subprocess.run('git -C /repo worktree prune', shell=True)
n = 0
for s, caught, missed in sorted(results):
    if caught is None and isinstance(missed, str):
        print(s, missed); continue
    n += bool(caught)
    if '--no-record' not in sys.argv:
        mp = f'{V}/seeded/{s}/meta.json'
        meta = json.load(open(mp))
        meta['caught_by'] = caught
        if caught:
            meta.pop('missed_by', None)
        else:
            meta['missed_by'] = missed
        json.dump(meta, open(mp, 'w'), indent=1)
print(f'caught {n} of {len(results)}')
