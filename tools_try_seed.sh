#!/bin/bash
# usage: tools_try_seed.sh PATCH PROP [tier]  - apply a seeded patch to /repo, run the check, undo
set -u
PATCH=$1; PROP=$2; TIER=${3:-quick}
git -C /repo apply "$PATCH" || { echo "PATCH DOES NOT APPLY"; exit 2; }
( cd /repo && /venv/bin/python -m pytest -q -p no:cacheprovider 2>&1 | tail -1 )
/verif/check "$PROP" --tier "$TIER" 2>&1 | tail -6
rc=${PIPESTATUS[0]}
git -C /repo checkout -- . 
echo "check rc=$rc"
