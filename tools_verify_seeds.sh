#!/bin/bash
# Verify sub-agent seeds in a scratch worktree at /repo HEAD: demo passes clean, tests pass + demo fails with patch.
OUT=/tmp/seed_verify.log
for dir in /tmp/seed_out/C*; do
  id=$(basename $dir)
  for X in A B; do
    p=$dir/patch$X.diff; dm=$dir/demo$X.py
    [ -f $p ] && [ -f $dm ] || { echo "$id$X missing files"; continue; }
    [ -d /verif/seeded/$id$X ] && continue
    wt=/tmp/wt/verify_$id$X
    git -C /repo worktree add --detach $wt HEAD >/dev/null 2>&1
    ( cd $wt
      VALIANT_ROOT=$wt PYTHONPATH=$wt/src timeout 600 /venv/bin/python $dm >/dev/null 2>&1; clean=$?
      if git apply $p 2>/dev/null; then applied=yes; else applied=no; fi
      tests=$(PYTHONPATH=$wt/src /venv/bin/python -m pytest -q -p no:cacheprovider 2>&1 | tail -1)
      VALIANT_ROOT=$wt PYTHONPATH=$wt/src timeout 600 /venv/bin/python $dm >/dev/null 2>&1; patched=$?
      echo "$id$X applied=$applied clean_rc=$clean patched_rc=$patched tests='$tests'"
    )
    git -C /repo worktree remove --force $wt
  done
done
