#!/usr/bin/env python3
"""Regenerate MANIFEST.json from the per-property notes below (claimed = has a property module and Props file)."""
import json, os
V = '/verif'
props = [json.loads(l) for l in open(f'{V}/properties.jsonl')]
TEXT = {
 'C08': "Coq theorems (Props/C08.v, closed): for every record (any |REF|, |ALT|, anchored or not, padded) whose REF matches the template, the variant imported by the model of CustomVariant.from_record_with_id / VcfVariant.normalise, applied by the model of Seq.alter, yields the template with REF replaced by ALT at POS; pure insertions/deletions are reported one to the right without the anchor and every other record as given; the constant-region flag computed from the constant regions equals 'start outside regions 1-3' (via the C18 tiling chain). Tied to the code by an exhaustive S-api sweep over all records with alleles of length <=4 over {A,C} at POS 1/2/5 and by random runs with every record kind in 1-3 manifest entries (exact custom row set, oligo, in_const, ref column; each row re-evaluated through the model). POS = 1 records, upper-casing and pysam parsing are exercised by the correspondence only (partial). Background-variant interaction is covered under C06.",
 'C17': "Coq theorems (Props/C17.v, closed): the default table, re-read from /repo's CSV into Generated/DefaultTable.v on every run, translates each of the 64 codons as the standard genetic code on both strands (finite check lifted by forallb_forall); for any table the codon chosen for an amino acid has the minimal rank and SNVRE's fallback is second in rank; synonymous sets are exact; all lookups are invariant under permutation of the rows (distinct codons, distinct ranks per amino acid); minus-strand lookups are reverse complements of plus-strand lookups; accepted loader rows have the documented shape. Tied to CodonTable/codon_table_loader by S-api comparison of ~200 lookups per table on random tables (incl. ties, duplicates, missing codons, rows sorted by codon) and malformed rows, and by file-level runs with shuffled and malformed custom tables. float() and int() grammars are run for real, not modelled (partial).",
 'C05': "Coq theorems (Props/C05.v, all closed) over a literal model of genomic_position_offsets.py / seq_converter.py: apply_variants = splice and |ALT| = |REF| + net inserted bases; from_var_stats accepts every sorted non-overlapping SNV/MNV/insertion/deletion set and its offsets tables and mask arrays compute the specification r2a/a2r/touches (refinement theorems); r2a and a2r are mutual inverses, strictly order-preserving in both directions, None exactly on deleted/inserted bases, identity before the context; the REF-variant overlap test is exact. Tied to the code by an exhaustive small-scope sweep comparing the full table of lookups (incl. nearest-before/after, range lifting with and without shrink, both overlap tests, refusals) with the model under vm_compute, plus apply_variants on random and ill-formed inputs. Nearest/range-lift/ALT-overlap lookups are covered by the correspondence and the independent cell-list oracle, not yet by theorems (partial); the single-base ALT overlap at an insertion point is a recorded known finding.",
 'C02': "Coq theorems (Props/C02.v, closed under the global context) that the model of IntPatternBuilder.build / Seq.subseq_window / DeletionMutator / SnvMutator emits exactly one full-length deletion per fitting window and exactly the 3 SNVs per base, for every region length, span and offset; the model is tied to the code by an exhaustive S-api sweep and by random SGE/cDNA runs compared row by row through vm_compute, and an independent spec oracle is applied to the implementation's rows to produce failing inputs.",
 'C18': "Coq theorems (Props/C18.v) that for every accepted targeton the segments const1, r1, r2, r3, const2 (empties omitted) form a chain covering exactly [ref_start, ref_end], that the reported sequences concatenate to the reference sequence, and that r1/r3 have the extension-vector lengths and flank r2; tied to TargetonConfig by an exhaustive small-scope S-api sweep (valid and invalid targetons) and to ref_sequences.csv by random runs incl. --sequences-only and two contigs.",
}
NOTE = 'Trusted: Coq 8.16.1 kernel + vm_compute; the hand translation of the Python/SQL into Gallina (validated by the correspondence check only); harness generators/parsers/fact extractors; pysam/click/pydantic/sqlite run for real. Print Assumptions of every theorem: closed under the global context unless the evidence file lists a standard-library axiom.'
REASON = {}
done = [p['id'] for p in props if os.path.exists(f"{V}/harness/props/{p['id'].lower()}.py") and os.path.exists(f"{V}/coq/Props/{p['id']}.v") and p['id'] in TEXT]
checks = []
for i in done:
    checks.append({'property_id': i, 'quick_cmd': f'./check {i} --tier quick', 'thorough_cmd': f'./check {i} --tier thorough',
                   'evidence_file': f'/verif/evidence/{i}.json', 'replay_cmd_template': f'./check {i} --replay {{path}}', 'engine': 'coq-model',
                   'level_claimed': {'category': 'proof', 'text': TEXT[i], 'design_ref': 'DESIGN.md section 8, ' + i},
                   'level_note': NOTE,
                   'technique': 'machine-checked proof in Coq 8.16 on a hand-written Gallina model + differential correspondence (vm_compute) against the implementation'})
kf = json.load(open(f'{V}/known_findings.json'))['findings']
m = {'version': 1, 'setup_cmd': './check --setup',
     'hooks': {'guard': 'VALIANT_VERIF', 'enable': 'no instrumentation needed: checks import /repo/src from the working tree (PYTHONPATH) with VALIANT_VERIF=1 set',
               'baseline_off_cmd': 'cd /repo && /venv/bin/python -m pytest -ra -q -p no:cacheprovider --timeout=900 --continue-on-collection-errors',
               'source_commits': [], 'add_only': True},
     'engines': [{'name': 'coq-model', 'path': '/verif/coq', 'serves_properties': done,
                  'kind_free_text': 'Coq 8.16 model + theorems; correspondence by generated case files evaluated with vm_compute inside coqc'}],
     'checks': checks,
     'notes': 'fix: commits in /repo: ' + '; '.join(f"{k['commit']} ({k['property']})" for k in kf if k['status'] == 'fixed') + '. See known_findings.json and DESIGN.md.',
     'not_applicable': [{'property_id': p['id'], 'reason': REASON.get(p['id'], 'check under construction (claimed once its model, theorems and correspondence are committed)')}
                        for p in props if p['id'] not in done]}
json.dump(m, open(f'{V}/MANIFEST.json', 'w'), indent=1)
print('claimed:', done)
